#!/venv/bin/python
"""Every `fix:` commit of /repo must be named (by short hash) in known_findings.json and in DESIGN.md."""
import json, subprocess, sys
log = subprocess.check_output(["git", "-C", "/repo", "log", "--format=%h %s"]).decode().strip().split("\n")
fixes = [l.split(" ", 1) for l in log if l.split(" ", 1)[1].startswith("fix:")]
kf = json.dumps(json.load(open("/verif/known_findings.json")))
des = open("/verif/DESIGN.md").read()
bad = [(h, m) for h, m in fixes if h not in kf or h not in des]
print("%d fix commits, %d not recorded" % (len(fixes), len(bad)))
for h, m in bad:
    print("  %s %s%s  %s" % (h, "" if h in kf else "[known_findings] ", "" if h in des else "[DESIGN]", m[:90]))
sys.exit(1 if bad else 0)
