#!/bin/bash
# Re-runs every kept seeded change (seeded/<ID>[-rN]/patch.diff) and every hand-written mutant listed in mutants/MAP against the
# CURRENT checks and the CURRENT /repo tree (scratch copy); prints one line per change. Usage: tools/reverify_seeded.sh [seeded|mutants]
cd /verif
what="${1:-seeded}"
if [ "$what" = seeded ]; then
  for d in seeded/C*/; do
    n=$(basename "$d"); id=${n%%-*}
    out=$(VERIF_SHRINK_S=3 tools/run_mutant.sh "$d/patch.diff" "$id" 2>&1); rc=$?
    echo "$n rc=$rc $(echo "$out" | grep -E '^vsim: C' | sed -E 's/.*runs, //' | cut -c1-90) $(echo "$out" | grep -c '^VIOLATION') violation line(s)"
  done
else
  while read -r diff id rest; do
    [ -z "$diff" ] && continue
    out=$(VERIF_SHRINK_S=3 tools/run_mutant.sh "mutants/$diff" "$id" $rest 2>&1); rc=$?
    echo "$diff $id rc=$rc $(echo "$out" | grep -c '^VIOLATION') violation line(s)"
  done < mutants/MAP
fi
