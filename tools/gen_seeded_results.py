#!/usr/bin/env python3
"""Regenerates seeded/RESULTS.md from seeded/<ID>[-rN]/meta.json (+ seeded/notes.json for the hand-written miss notes)."""
import json
import os
import re

ROOT = os.path.join(os.path.dirname(os.path.abspath(__file__)), "..", "seeded")


def row(d, m):
    cr = m.get("check_result", {})
    c = m.get("confirmed", {})
    cut = lambda s, n: (str(s).replace("|", "/").replace("\n", " ")[:n])  # noqa: E731
    return "| %s | %s | %s | %s | %s/%s | %s (%ss) | %s |" % (
        d, cut(m.get("breaks", ""), 260), cut(m.get("needs_to_manifest", ""), 220), c.get("test_suite_with_mutant", "?"),
        "PASS" if c.get("demo_on_original_exit") == 0 else "exit %s" % c.get("demo_on_original_exit"),
        "FAIL" if c.get("demo_on_mutant_exit") not in (0, None) else "exit %s" % c.get("demo_on_mutant_exit"),
        "DETECTED" if cr.get("detected") else ("not a violation of the property as stated (see meta.json)" if m.get("not_a_violation") else "MISSED"), cr.get("seconds", "?"), ", ".join(s.replace("|", "/") for s in cr.get("signatures", [])[:3]))


def main():
    dirs = sorted(d for d in os.listdir(ROOT) if re.match(r"^C\d\d(-r\d+)?$", d) and os.path.exists(os.path.join(ROOT, d, "meta.json")))
    rounds = {}
    for d in dirs:
        rounds.setdefault(d.split("-r")[1] if "-r" in d else "1", []).append(d)
    notes = json.load(open(os.path.join(ROOT, "notes.json")))
    out = ["# Independent breaking changes (sub-agents that saw only the property text)", "",
           "Each change was produced in its own scratch worktree by a sub-agent that was given the property record and nothing from /verif.",
           "Every row was then confirmed here (`tools/seeded.sh <ID>`): the patch applies to a clean tree, the repository's unedited test suite",
           "passes with it, the demonstration passes without it and fails with it, and the property's check is run against a scratch copy",
           "carrying the patch (`VERIF_REPO=<copy>`; /repo itself is never modified). Verdicts are those of the FINAL check (after any strengthening", "listed below).", ""]
    total = det = eqv = 0
    for rnd in sorted(rounds):
        out += ["## Round %s" % rnd, "", "| property | change | needs to manifest | test suite with it | demo orig/mutant | check verdict (quick tier) | signatures |", "|---|---|---|---|---|---|---|"]
        for d in rounds[rnd]:
            m = json.load(open(os.path.join(ROOT, d, "meta.json")))
            out.append(row(d, m))
            total += 1
            det += 1 if m.get("check_result", {}).get("detected") else 0
            eqv = eqv + (1 if (m.get("not_a_violation") and not m.get("check_result", {}).get("detected")) else 0)
        out.append("")
    out += ["## Checks strengthened because of a miss", ""]
    for n in notes["strengthened"]:
        out.append("* **%s** - %s" % (n["id"], n["note"]))
    out += ["", "## By-products", ""]
    for n in notes.get("byproducts", []):
        out.append("* %s" % n)
    out += ["", "After strengthening, %d of %d changes are reported as VIOLATION by the quick tier of their property's check, %d more do not violate the property as stated, and every check still exits 0 on the unchanged tree." % (det, total, eqv), ""]
    open(os.path.join(ROOT, "RESULTS.md"), "w").write("\n".join(out))
    print("RESULTS.md: %d/%d detected" % (det, total))


if __name__ == "__main__":
    main()
