#!/bin/bash
# tools/seeded.sh <ID> [<check runs>] [<name suffix>]
# Takes a sub-agent's deliverables from /tmp/wt-<ID>/_out, confirms them independently in a scratch copy
# (patch applies to a clean tree, unedited test suite passes with it, demo passes without / fails with),
# runs the property's check against the mutated copy, and stores everything under /verif/seeded/<ID><suffix>/.
set -u
ID="$1"; RUNS="${2:-}"; SUF="${3:-}"
SRC="${SEED_SRC:-/tmp/wt-$ID/_out}"; DST="/verif/seeded/$ID$SUF"
[ -f "$SRC/patch.diff" ] || { echo "no patch.diff in $SRC"; exit 3; }
mkdir -p "$DST"
if [ "$(realpath "$SRC")" != "$(realpath "$DST")" ]; then
  cp "$SRC/patch.diff" "$SRC/demo.py" "$DST/"; cp "$SRC/meta.json" "$DST/meta.agent.json" 2>/dev/null
fi  # re-verification of a kept change (SRC == DST) keeps its files, meta.agent.json included
D="/dev/shm/seed-$ID-$$"; rm -rf "$D"; mkdir -p "$D"
rsync -a --exclude .git --exclude _out /repo/ "$D/"
cd "$D"
echo "== demo on the original"; PYTHONPATH="$D" timeout 300 /venv/bin/python "$DST/demo.py" > "$D/.demo0.txt" 2>&1; RC0=$?; tail -2 "$D/.demo0.txt"
patch -p1 -s < "$DST/patch.diff" || { echo "PATCH DOES NOT APPLY"; rm -rf "$D"; exit 3; }
echo "== demo on the mutant"; PYTHONPATH="$D" timeout 300 /venv/bin/python "$DST/demo.py" > "$D/.demo1.txt" 2>&1; RC1=$?; tail -2 "$D/.demo1.txt"
echo "== test suite with the mutant"; TESTS=$(cd "$D" && PYTHONPATH="$D" timeout 1200 /venv/bin/python -m pytest -q -p no:cacheprovider --timeout=900 2>&1 | tail -1); echo "$TESTS"
# the suite rewrites tracked files in the copy; restore sources of truth before running the check
rsync -a --exclude .git --exclude _out /repo/ "$D/"; patch -p1 -s < "$DST/patch.diff"
echo "== check $ID against the mutant"
BEFORE="$(mktemp)"; find /verif/replays -type f -not -path "/verif/replays/known/*" 2>/dev/null | sort > "$BEFORE"
cp "/verif/evidence/$ID.json" "$D/.evidence.bak" 2>/dev/null
T0=$(date +%s)
VERIF_REPO="$D" VERIF_SHRINK_S=15 /verif/check "$ID" ${RUNS:+--runs $RUNS} > "$D/.check.txt" 2>&1; RCC=$?
T1=$(date +%s)
grep -E "^(VIOLATION|violation:|vsim: C|HARNESS|KNOWN)" "$D/.check.txt" | cut -c1-400 | tail -8
cp "$D/.evidence.bak" "/verif/evidence/$ID.json" 2>/dev/null
SIGS=$(grep -E "^violation" "$D/.check.txt" | sed -E 's/.*signature=([^ ]+).*/\1/' | head -6 | tr '\n' ' ')
find /verif/replays -type f -not -path "/verif/replays/known/*" 2>/dev/null | sort | comm -13 "$BEFORE" - | while read -r f; do rm -f "$f"; done; rm -f "$BEFORE"
cd /verif
/venv/bin/python - "$ID" "$DST" "$RC0" "$RC1" "$TESTS" "$RCC" "$SIGS" "$((T1-T0))" "${RUNS:-quick-tier}" <<'PY'
import json, sys, os
pid, dst, rc0, rc1, tests, rcc, sigs, secs, runs = sys.argv[1:10]
try:
    agent = json.load(open(os.path.join(dst, "meta.agent.json")))
except Exception:
    agent = {}
meta = {
  "property": pid,
  "breaks": agent.get("summary", ""),
  "needs_to_manifest": agent.get("needs", ""),
  "files": agent.get("files", []),
  "confirmed": {
     "patch_applies_to_clean_tree": True,
     "demo_on_original_exit": int(rc0), "demo_on_mutant_exit": int(rc1),
     "test_suite_with_mutant": tests,
  },
  "what_was_run": ["PYTHONPATH=<scratch copy> /venv/bin/python demo.py (before and after applying patch.diff)",
                   "PYTHONPATH=<scratch copy> /venv/bin/python -m pytest -q -p no:cacheprovider --timeout=900 (with the patch)",
                   "VERIF_REPO=<scratch copy with patch> ./check %s (%s)" % (pid, runs)],
  "check_result": {"exit": int(rcc), "detected": int(rcc) == 1, "signatures": sigs.split(), "seconds": int(secs)},
}
json.dump(meta, open(os.path.join(dst, "meta.json"), "w"), indent=1)
print("seeded %s: demo orig=%s mutant=%s | tests: %s | check exit=%s detected=%s sigs=%s" % (pid, rc0, rc1, tests, rcc, int(rcc) == 1, sigs))
PY
rm -rf "$D"
