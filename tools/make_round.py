#!/venv/bin/python
"""Prepare a round of sub-agent mutation work: one scratch worktree of /repo per claimed property
under /tmp/w<round>-<ID> and one prompt file /tmp/agent_prompt<round>-<ID>.txt.  The prompt holds the
property text and one-line descriptions of the earlier kept changes (so that a different clause and
site is chosen) - nothing else from /verif.

usage: tools/make_round.py <round-number>
"""
import json
import os
import subprocess
import sys

rnd = sys.argv[1]
props = {}
for l in open('/verif/properties.jsonl'):
    d = json.loads(l)
    props[d['id']] = d
na = {x['property_id'] for x in json.load(open('/verif/MANIFEST.json')).get('not_applicable', [])}
ids = [i for i in sorted(props) if i not in na]
for i in ids:
    wt = '/tmp/w%s-%s' % (rnd, i)
    subprocess.run(['git', '-C', '/repo', 'worktree', 'add', '--detach', '-f', wt, 'HEAD'], check=True, capture_output=True)
    os.makedirs(wt + '/_out', exist_ok=True)
    json.dump(props[i], open('/tmp/prop%s-%s.json' % (rnd, i), 'w'), indent=1)
    used = []
    for suf in [''] + ['-r%d' % k for k in range(2, int(rnd))]:
        try:
            m = json.load(open('/verif/seeded/%s%s/meta.json' % (i, suf)))
            used.append("- %s" % (m.get('breaks', '')[:260].replace('\n', ' ')))
        except Exception:
            pass
    prompt = f"""You are helping to evaluate how well a verification effort protects a semantic property of the Python project checked out at {wt} (a private scratch git worktree; work ONLY inside it; never touch /repo or /verif, and do not read /verif).

The property (JSON record, also saved at /tmp/prop{rnd}-{i}.json):

{json.dumps(props[i], indent=1)}

PART A - a breaking change. Make ONE realistic change to the project's source (not its tests) in {wt} that BREAKS this property while the project still imports and its existing, unedited test suite still passes. The change should look like something a well-meaning maintainer could commit (a refactor, an optimisation, a clean-up, a plausible bug fix), not like sabotage, and it must need something SPECIFIC to manifest: a particular input shape, configuration, schedule or interleaving, fault (I/O error, crash point), clock behaviour, or multi-step history - not something every run would trip over. Prefer a change whose effect only shows through an interaction (two features together, a history of several steps, a fault at a particular instant), and prefer code that is reached through the property's anchored mechanisms but lives in a helper or neighbouring module the anchors call into.

{len(used)} earlier changes for this property already exist; choose a DIFFERENT clause of the property and a DIFFERENT code site than these:
{chr(10).join(used)}

PART B - the unchanged code. Independently of your change, examine the UNCHANGED code for behaviour that already violates the property as stated and quantified (read the quantifier closely: every input shape, configuration, history or fault it lists is in scope). For each suspected violation, try to confirm it by running a small script against a clean export of the commit (use `git -C {wt} archive HEAD | tar -x -C <tmpdir>`), and record the concrete input and the observed vs expected behaviour. Only report what you confirmed by running it, and say so; label anything unconfirmed as such.

How to work:
- Read the anchored files named in the property and whatever else you need inside {wt}.
- Run the existing suite from inside the worktree with:  cd {wt} && PYTHONPATH={wt} /venv/bin/python -m pytest -q -p no:cacheprovider --timeout=900   (about half a minute; 519 passed / 31 skipped on the unchanged code). The suite rewrites a few tracked files; restore them with git checkout before producing the diff so that the diff holds only your change.
- No network. Do not install anything. Keep scratch files under /tmp/w{rnd}-{i}-scratch (create it) and delete that directory when you are done.

Deliverables, all in {wt}/_out/ :
1. patch.diff - `git diff` of your change only (must apply with `git apply` to a clean checkout of the same commit).
2. demo.py - a self-contained demonstration run as `PYTHONPATH=<checkout> /venv/bin/python demo.py`: it must print PASS and exit 0 on the unchanged code and print FAIL (saying what was violated) and exit 1 on the changed code. Deterministic, under 60 s, writes only under a tempfile.mkdtemp() directory, compares nothing that depends on the wall clock.
3. meta.json - {{"property": "{i}", "summary": "<what the change does and which clause it breaks>", "needs": "<what it needs in order to manifest>", "files": [...], "tests_passed": "<last line of pytest output with the change applied>", "demo_original": "<exit code/last line>", "demo_mutant": "<exit code/last line>", "notes": "<PART B: confirmed violations of the unchanged code, each with its concrete input; empty if none>"}}
4. existing.py (optional but welcome) - a script that demonstrates the PART B findings on the unchanged code (prints each finding; exit code irrelevant).

Leave the worktree with your change applied. In your final message, summarise the change, what it needs to manifest, the test-suite result line, and - separately - the confirmed PART B findings with their concrete inputs."""
    open('/tmp/agent_prompt%s-%s.txt' % (rnd, i), 'w').write(prompt)
print(len(ids), "worktrees and prompts for round", rnd)
