#!/bin/bash
cd /verif && PYTHONPATH=/verif PYTHONDONTWRITEBYTECODE=1 PYTHONHASHSEED=0 CI=true timeout 1800 /venv/bin/python -m vsim.selftest "$@"
