#!/venv/bin/python
"""rec.py <property> <commit> <signature> <what_fails> <fixed-text> <design-row-text> [<lead-old> <lead-new>]"""
import json, sys
pid, h, sig, what, fixed, row = sys.argv[1:7]
k=json.load(open('/verif/known_findings.json'))
k["findings"].append({"property":pid,"status":"fixed","signature":sig,"what_fails":what,"fixed":"fixed: property=%s %s %s" % (pid,h,fixed)})
json.dump(k,open('/verif/known_findings.json','w'),indent=1,ensure_ascii=False); open('/verif/known_findings.json','a').write("\n")
d=open('/verif/DESIGN.md').read().split("\n")
# insert after the last row of the findings tables that carries a commit hash in backticks within section 10
start=[n for n,l in enumerate(d) if l.startswith("## 10.")][0]
end=[n for n,l in enumerate(d) if l.startswith("## 11.")][0]
last=max(n for n in range(start,end) if d[n].startswith("| C") and d[n].rstrip().endswith("` |"))
d.insert(last+1,"| %s | %s | `%s` |" % (pid,row,h))
import re
d[5]=re.sub(r"\((\d+) `fix:` commits", lambda m: "(%d `fix:` commits" % (int(m.group(1))+1), d[5])
open('/verif/DESIGN.md','w').write("\n".join(d))
if len(sys.argv)>8:
    import glob
    done = False
    for p in sorted(glob.glob('/verif/notes/leads-round*.md'), reverse=True):
        c=open(p).read()
        if sys.argv[7] in c:
            open(p,'w').write(c.replace(sys.argv[7],sys.argv[8])); done = True; break
    assert done, "lead text not found in any notes/leads-round*.md"
