#!/bin/bash
# tools/commit_fix.sh <file with commit message> [paths...]
# Commits the working-tree change of /repo (all of it, or only the given paths) as one commit - but only after the repository's
# unedited test suite has passed with exactly that change in a scratch clone under /dev/shm.
set -u
MSG="$1"; shift
cd /repo || exit 2
if [ $# -gt 0 ]; then git diff -- "$@" > /dev/shm/_fix.diff; else git diff > /dev/shm/_fix.diff; fi
[ -s /dev/shm/_fix.diff ] || { echo "no change"; exit 2; }
T=/dev/shm/repo-test-$$; rm -rf "$T"; git clone -q /repo "$T" || exit 2
( cd "$T" && git apply /dev/shm/_fix.diff ) || { echo "diff does not apply to HEAD"; rm -rf "$T"; exit 2; }
RES=$(cd "$T" && /venv/bin/python -m pytest -q -p no:cacheprovider --timeout=900 2>&1 | tail -1); rm -rf "$T"
echo "suite: $RES"
case "$RES" in
  *failed*|*error*) echo "NOT committed"; exit 1;;
  *passed*) ;;
  *) echo "NOT committed (no result)"; exit 1;;
esac
if [ $# -gt 0 ]; then git add -- "$@"; else git add -A; fi
git commit -q -F "$MSG" && git log --oneline | head -1
