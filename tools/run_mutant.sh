#!/bin/bash
# tools/run_mutant.sh <patch.diff> <property> [check args...]
# Applies the patch to a scratch copy of /repo (never /repo itself), runs the check against it, removes the copy.
set -u
PATCH="$(realpath "$1")"; PID="$2"; shift 2
D="/dev/shm/mut-$$"
rm -rf "$D"; mkdir -p "$D"
rsync -a --exclude .git /repo/ "$D/"
( cd "$D" && patch -p1 -s < "$PATCH" ) || { echo "patch failed"; rm -rf "$D"; exit 3; }
BEFORE="$(mktemp)"; find /verif/replays -type f -not -path "/verif/replays/known/*" 2>/dev/null | sort > "$BEFORE"
cp "/verif/evidence/$PID.json" "$D/.evidence.bak" 2>/dev/null
VERIF_REPO="$D" VERIF_SHRINK_S="${VERIF_SHRINK_S:-10}" /verif/check "$PID" "$@" | grep -E "^(VIOLATION|KNOWN|vsim:|HARNESS|violation:)" | cut -c1-300
rc=${PIPESTATUS[0]}
cp "$D/.evidence.bak" "/verif/evidence/$PID.json" 2>/dev/null
rm -rf "$D"
# replays written while testing a mutant are not kept
find /verif/replays -type f -not -path "/verif/replays/known/*" 2>/dev/null | sort | comm -13 "$BEFORE" - | while read -r f; do rm -f "$f"; done
rm -f "$BEFORE"
exit $rc
