#!/venv/bin/python
"""Regenerate MANIFEST.json from the table below (kept valid at all times)."""
import json, os, subprocess
HERE = os.path.dirname(os.path.dirname(os.path.abspath(__file__)))

CHECKS = {
 "C08": dict(level="fault_enumeration", ref="4/C08",
    text="Every intercepted I/O event of an atomic write is enumerated as a kill point (all power-loss states of an ordered-mode "
         "shadow disk) and as a failing call (errno set x persistent/transient, short writes), with a concurrent reader after every "
         "event, for seeded (caller, old, new) triples over all callers of the atomic path. Complete over the write's event "
         "sequence for each sampled triple, sampled over contents.",
    note="Trusts the interposer to see every mutating syscall (cross-checked by an audit hook), the ordered-mode POSIX crash model, "
         "and tmpfs + CPython io above the syscall layer. zstd branch absent.",
    technique="deterministic simulation: I/O interposer + exhaustive per-event fault/crash injection + shadow-disk crash states"),
 "C01": dict(level="exploration", ref="4/C01",
    text="Seeded worlds/configs/turn sequences (incl. process restarts that boot from the snapshot directory) executed in up to "
         "eight environments that differ only in simulator-owned nondeterminism (steady clock; slow/fast/jumping/skewed/stalled wall "
         "clock and perf counter far from the logical now; another PYTHONHASHSEED in a separate fresh or warm interpreter; warm re-run; "
         "two seeded thread schedules; permuted directory enumeration with tied mtimes; a process whose stage caches are already "
         "populated; another TZ) and compared byte for byte on utterances, canonical logs and snapshot bodies. Sampling, not proof.",
    note="Trusts the clock/datetime seams to be the only time sources of the engine (grep-audited); time-driven features "
         "(wall budgets, TTLs) are kept out of the perturbation as the property scopes them.",
    technique="deterministic simulation: simulated clock fault profiles + hash-seed/process axis, differential byte comparison"),
 "C04": dict(level="exploration", ref="4/C04",
    text="Seeded histories of turns with generated plan deltas over a recording, fault-injecting store double (batch raises, "
         "single deltas raise, odd result shapes, failing invalidation) with kill switch, cadence and bust mode toggled mid-history; "
         "a reference model of the hand-off, version, invalidation and cadence is checked after every turn.",
    note="Store double is all-or-nothing by construction; planner deltas enter through the orchestrator's t3_deliberate seam; a third of the "
         "programs build contexts like the engine's own TurnCtx (ctx.cfg only) - where Apply ignores the configuration (recorded finding).",
    technique="deterministic simulation: fault-injecting store double + reference model over seeded histories"),
 "C05": dict(level="exploration", ref="4/C05",
    text="One history, two arms (configured caches vs all caches off) under the same simulated clock; histories interleave turns "
         "with graph/memory edits, agent and state switches, TTL-crossing clock advances and config changes; stage results used by "
         "the orchestrator are compared per turn; failures are explained by necessary-feature ablation and per-layer attribution.",
    note="TTL clocks are the caches' own time_fn parameter bound to the simulated clock; a fifth of the runs use the stage thread pools, a third the graph-evolution and rerank layers; a second engine state in the same process holds other content or the same graph built in another order.",
    technique="deterministic simulation: differential cached/uncached execution over seeded mutation histories with simulated TTL clock"),
 "C02": dict(level="exploration", ref="4/C02",
    text="Two arms per seed: base config B and B+ with generated validator-accepted values inside 1-3 gated-off subtrees, same world "
         "(where the gated code would have work), same ops, same simulated clock; utterances, all log files, snapshot bodies, a deep "
         "state digest after every op and the set of files created are compared; differences are reduced to the necessary junk keys.",
    note="The quantifier proper is over subtree contents (sampled); absence of artefacts is observed through the run's scratch file system.",
    technique="deterministic simulation: differential execution B vs B+ with file-system observation over multi-turn histories"),
 "C09": dict(level="exploration", ref="4/C09",
    text="run_parallel, parallel T1 and the T2 shard fan-out run on a baton-passing thread scheduler: real worker threads, one runnable "
         "at a time, a seeded choice at every task boundary and cache-lock operation decides who advances; two seeded schedules per "
         "input are compared with the sequential path and with a reference model of the helper.",
    note="Pre-emption points are task boundaries and cache-lock operations; stage code between them shares no state.",
    technique="deterministic simulation: seeded baton-passing thread scheduler replacing the thread pool, differential vs sequential"),
 "C20": dict(level="exploration", ref="4/C20",
    text="Random subsets of the declared fail-soft sites are armed with one of 13 exception types (or garbage snapshot directories "
         "for the boot loader); a twin run has those subsystems off/idle; the turn must return and its canonical records must equal the twin's.",
    note="Sites are those guarded by try/except in run_turn, apply_changes, apply_quality and the sidecar writer; twins are defined per site (DESIGN 4/C20).",
    technique="deterministic simulation: buggify fault sites + garbage-state injection, differential vs idle twin"),
 "C15": dict(level="exploration", ref="4/C15",
    text="Every container is driven by seeded operation histories beside a reference model written from its docstring, with the TTL clock "
         "injected and advanced/jumped by the history; the lock wrappers are driven by 2-4 simulated threads with line-level pre-emption "
         "inside the container sources and the recorded invoke/return history is checked for linearizability against the model; "
         "merge_caches_deterministic is checked over permuted worker lists.",
    note="Histories are short (<=30 ops, <=12 threaded ops) over 4 keys; linearizability by exhaustive search.",
    technique="deterministic simulation: model-based histories with simulated clock + seeded thread scheduler with line pre-emption + linearizability check"),
 "C16": dict(level="exploration", ref="4/C16",
    text="Concurrent writers append through the real append_jsonl on an interposed raw append layer whose every write is a scheduler-"
         "controlled event; LogStager is driven with the documented back-pressure protocol under several byte limits; rotation histories "
         "are interrupted by a kill at every file-system step or by a step failing with an errno, and continued; normalisation and compaction are checked on generated records.",
    note="Atomicity of one O_APPEND write is assumed (POSIX); processes are modelled as tasks with own descriptors.",
    technique="deterministic simulation: seeded interleaving of raw append events, back-pressure schedules, kill points in rotation"),
 "C17": dict(level="exploration", ref="4/C17",
    text="Scheduler-core histories with a simulated clock (advances, tier crossings, backward jumps), both policies and optional queue "
         "rotation are checked for determinism, eligibility, reset and the 2(n-1)m+1 selection bound; orchestrator turns run with scripted "
         "per-stage simulated costs and drawn budgets, checking clamps, yield placement and reason precedence.",
    note="Liveness is a step bound over finite histories; worlds have 1-3 active graphs (the slice budgets bind the stage, not each graph).",
    technique="deterministic simulation: simulated scheduler/slice clocks with scripted stage costs, invariant + bounded-liveness checks over seeded histories"),
 "C18": dict(level="exploration", ref="4/C18",
    text="Histories over observe/tick/merge/split/promote and snapshot+restart (optionally killed mid-write) under validator-accepted graph "
         "settings, with invariants (clamp bounds, decay monotonicity and exact floor drops, canonical keys, pair caps, top-k membership, "
         "maintenance non-destructiveness, promotion idempotence) after every op, a shuffled-items twin and a gate-off twin; plus whole turns with graph.enabled.",
    note="Clamp bound asserted for co-activation edges; restart equality up to the documented 6-decimal rounding.",
    technique="deterministic simulation: seeded operation histories incl. crash/restart through the real snapshot path, invariant checks + twins"),
 "C19": dict(level="exploration", ref="4/C19",
    text="Turns over every gate combination, both back ends, caps, token limits, a scripted simulated cost of the reflect call around the wall "
         "budget and faults in compute/write/index/telemetry; per-turn twin with reflection off from the same deep-copied pre-state; other-wall-clock twin for ids/timestamps.",
    note="Stage caches are off so the in-process twin cannot be served from the main run's cache; LLM completions are served by the real fixture adapter.",
    technique="deterministic simulation: simulated wall budget + fault sites + per-turn differential twin"),
 "C06": dict(level="exploration", ref="4/C06",
    text="Write/load/write-again chains on a scratch snapshot directory with generated states (weights maps; GEL graphs in dict and list form, "
         "both orientations, unicode/dotted ids, non-finite and out-of-range weights), writes killed at every I/O step (power-loss states fed to "
         "snapshot discovery), failing sidecar writes and clock rewinds between agents; each load is compared with the write that produced the "
         "chosen file and written again byte for byte.",
    note="Sanitisation corner cases are sampled; 'latest' follows the simulated mtimes.",
    technique="deterministic simulation: crash/fault-injected write-load-write chains on an interposed disk with simulated mtimes"),
 "C07": dict(level="exploration", ref="4/C07",
    text="Snapshot-shaped payload pairs with adversarial keys go through the codec law and through the real delta writer/reader on a scratch "
         "disk whose baseline is left intact, never written, removed, truncated, garbled or lost by a kill during its write; reads by path, by "
         "etag and through load_latest_snapshot must return the payload, the full sibling, {} / not-loaded, or raise - never another dict.",
    note="Codec 'none' only (no zstandard); the codec law itself is input-quantified and evaluated on the generated pairs.",
    technique="deterministic simulation: baseline fault sequences (kill during write, removal, truncation, garbling) around the real writer/reader"),
 "C14": dict(level="exploration", ref="4/C14",
    text="Generated config trees (valid swarm + wrong types, NaN/inf, huge, empty containers, unknown and non-string keys) are written as YAML "
         "to a scratch disk and validated through every API variant in-process and through the CLI in two other interpreters under other "
         "PYTHONHASHSEED values (fresh and warm); verdicts and messages must agree, inputs stay untouched, and accepted configs must drive two turns.",
    note="Only the cross-process/hash-seed agreement clause depends on something the simulator controls; totality, purity, ranges and "
         "runnability are sampled over the generated inputs and claimed as such.",
    technique="deterministic simulation (process/hash-seed axis): differential validation across API variants and CLI interpreters + execution of accepted configs"),
 "C10": dict(level="exploration", ref="4/C10",
    text="A generated turn function honouring the documented dry-run contract runs through the real batch driver, LogMux, LogStager, apply_changes "
         "and snapshot writer over a recording store, for generated batches (1-6 agents, arbitrary graph overlap, record sizes to 40 KiB) under "
         "three staging byte limits from 1 byte to 32 MiB and worker limits 2-8, and is compared with the sequential loop over the picked agents "
         "(results, per-file log lines, store hand-offs, version, snapshot files, greedy disjoint selection). The real pipeline through the "
         "driver is a recorded finding.",
    note="The driver's compute loop is sequential, so the varied schedule is where back-pressure drains fall.",
    technique="deterministic simulation: back-pressure schedules via the staging seam, differential vs sequential loop"),
 "C11": dict(level="exploration", ref="4/C11",
    text="Multi-agent histories over one shared memory index with stage and turn-level caches on, memory additions, relabels and config changes; "
         "a monitor on every T2Result (incl. RAG refinement, cached or fresh) checks k/distinctness/owner scope/threshold/recency window/combined-"
         "score order, the permutation law of the rerank layers and the residual-nudge rules.",
    note="Scope isolation through shared caches is the schedule-dependent clause; ranking and tier laws are sampled over generated memories.",
    technique="deterministic simulation: invariant monitors over interleaved multi-agent histories with shared caches"),
 "C13": dict(level="exploration", ref="4/C13",
    text="Whole-engine turns are monitored for op caps (incl. slice cap 0), Speak-first intent vs thresholds, RequestRetrieve only below tau_low, "
         "at most one refinement, token budgets and planner purity; the real LLM planner/speaker path is driven against an in-process fake HTTP "
         "peer answering with valid, fenced, prose-wrapped, torn, duplicated, oversized, wrongly typed or non-UTF-8 bodies, errors, timeouts and stalls.",
    note="Acceptance is checked one-directionally against an independent strict reading; planner purity/threshold clauses are sampled.",
    technique="deterministic simulation: in-process fake peer with scripted faults behind urllib + invariant monitors"),
}

NA = {
 "C03": "pure function of its arguments (plan, cooldown map, turn id, caps): no clock, I/O, thread, shared state or history for a simulator to control; simulation would only be input generation under another name (DESIGN 5)",
 "C12": "with its cache off, propagation is a pure function of (graph, text, config, slice caps); its schedule/history failure modes are decided under C09 (parallel), C05 (cache) and C17 (slice caps); the rest is model-based input testing, not simulation (DESIGN 5)",
}
ALL = ["C%02d" % i for i in range(1, 21)]

def main():
    checks = []
    for pid in ALL:
        c = CHECKS.get(pid)
        if not c:
            continue
        checks.append({
            "property_id": pid,
            "quick_cmd": "./check %s --tier quick" % pid,
            "thorough_cmd": "./check %s --tier thorough" % pid,
            "evidence_file": "/verif/evidence/%s.json" % pid,
            "replay_cmd_template": "./check %s --replay {path}" % pid,
            "engine": "vsim",
            "level_claimed": {"category": c["level"], "text": c["text"], "design_ref": "DESIGN.md section " + c["ref"]},
            "level_note": c["note"],
            "technique": c["technique"],
        })
    na = []
    for pid in ALL:
        if pid in CHECKS:
            continue
        na.append({"property_id": pid, "reason": NA.get(pid, "check not built yet in this session (planned, see DESIGN.md section 4); nothing is claimed for it")})
    hooks_commits = [l.split()[0] for l in subprocess.run(["git", "-C", "/repo", "log", "--format=%h %s"], capture_output=True, text=True).stdout.splitlines() if " hook:" in l or l.split(" ", 1)[1].startswith("hook")]
    m = {
        "version": 1,
        "setup_cmd": "PYTHONPATH=/verif PYTHONDONTWRITEBYTECODE=1 /venv/bin/python -m vsim.setup",
        "hooks": {
            "guard": "CLEMATIS3_VERIF",
            "enable": "no source hooks: every seam is reached from the harness by rebinding module attributes or through injection points the code already offers (DESIGN.md section 1); checks import /repo's working tree directly (VERIF_REPO overrides)",
            "baseline_off_cmd": "cd /repo && /venv/bin/python -m pytest -ra -q -p no:cacheprovider --timeout=900 --continue-on-collection-errors",
            "source_commits": hooks_commits,
            "add_only": True,
        },
        "engines": [{"name": "vsim", "path": "/verif/vsim", "serves_properties": sorted(CHECKS),
                     "kind_free_text": "in-process deterministic simulator: seeded PRNG streams, simulated clock, I/O interposer with shadow-disk crash states, baton-passing thread scheduler, buggify fault sites, ddmin minimiser, explicit replay files"}],
        "checks": checks,
        "not_applicable": na,
        "notes": "exit 0 = held (KNOWN-FINDING lines allowed), 1 = VIOLATION line, 2 = harness error. Known findings: /verif/known_findings.json. Fix commits in /repo start with 'fix:'.",
    }
    with open(os.path.join(HERE, "MANIFEST.json"), "w") as fh:
        json.dump(m, fh, indent=1)
        fh.write("\n")
    print("MANIFEST.json: %d checks, %d not applicable" % (len(checks), len(na)))

if __name__ == "__main__":
    main()
