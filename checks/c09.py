"""C09 - stage-level parallelism is indistinguishable from sequential execution.

The thread pool inside run_parallel is replaced by SimExecutor: real worker threads, one runnable at a time, the
seeded scheduler decides at every yield point (task start/end, cache lock acquire/release) who advances, so every
completion order is an explicit, replayable choice vector.  Three sub-targets:
  helper  run_parallel on generated tasks (values / exceptions / equal keys), workers 0..8
  t1      t1_propagate over 2-3 graphs, parallel vs sequential, shared caches incl. tiny byte caches
  t2      t2_semantic over a sharded in-memory index, all tiers, vs sequential
"""
from __future__ import annotations

import copy
import types
from typing import Any, Dict, List, Optional, Tuple

from vsim import use_repo

use_repo()

from vsim import engine as E  # noqa: E402
from vsim.clock import SimClock  # noqa: E402
from vsim.rng import Rng  # noqa: E402
from vsim.sched import Sched, SimExecutor, ThreadingShim, sim_as_completed  # noqa: E402
from vsim.scratch import Scratch  # noqa: E402

import clematis.engine.util.parallel as upar  # noqa: E402
import clematis.engine.cache as ecache  # noqa: E402
from clematis.engine.stages.t1 import t1_propagate  # noqa: E402
from clematis.engine.stages.t2 import t2_semantic  # noqa: E402

PROPERTY = "C09"
LEVEL = "exploration"
RUNS = {"quick": 3000, "thorough": 40000}
RULE = ("one run = one sub-target (helper/t1/t2) with a seeded input and TWO seeded schedules of the worker threads plus the "
        "sequential reference; the schedule is the vector of scheduler choices at task start/end and cache-lock acquire/release. "
        "non-trivial = more than one task ran under a pool with more than one worker; distinct = (sub-target, input digest, schedule digest)")
REAL = ["clematis/engine/util/parallel.py:run_parallel", "t1_propagate (parallel fan-out, merge_fn, shared ThreadSafe caches)",
        "t2_semantic (shard fan-out, collect_shard_hits, merge_tier_hits_across_shards_dict)", "InMemoryIndex shard views"]
STUBS = ["ThreadPoolExecutor -> SimExecutor (real threads, baton-passing, seeded choice of who advances)",
         "threading.RLock of the cache wrappers -> SimRLock"]
ASSUMPTIONS = [
    "threads are pre-empted at task boundaries and cache-lock operations; other lines of stage code run atomically (they share no state)",
    "real pools under switch-interval jitter are not used: a failure there would not replay",
    "the gated parallel_workers/task_count metrics are excluded from the T1 comparison (they describe the pool, not the result)",
]
SHRINK_FIELDS = ["tasks", "ops", "calls"]


# ---------------------------------------------------------------------------
def generate(seed: int, tier: str) -> Dict[str, Any]:
    rng = Rng(seed)
    r = rng.stream("gen")
    target = r.weighted([("helper", 4), ("t1", 3), ("t2", 3)])
    prog: Dict[str, Any] = {"target": target, "sched_seeds": [int(r.u64() % (1 << 30)), int(r.u64() % (1 << 30))]}
    if target == "helper":
        n = r.randint(0, 8) if r.chance(0.7) else r.randint(9, 24)   # wide fan-outs too: every failure is reported, however many
        p_fail = r.choice([0.0, 0.3, 0.5, 0.9, 1.0])
        tasks = []
        for i in range(n):
            tasks.append({"key": r.choice([0, 1, 2, 3, "a", "b"]) if r.chance(0.5) else i,
                          "val": r.randint(0, 99), "exc": r.choice(["ValueError", "KeyError", "RuntimeError"]) if r.chance(p_fail) else None})
        keys = [t["key"] for t in tasks]
        if any(isinstance(k, str) for k in keys) and any(isinstance(k, int) for k in keys):
            for t in tasks:
                t["key"] = str(t["key"])
        prog.update({"tasks": tasks, "workers": r.randint(0, 8), "order": r.choice(["key", "neg", "const"])})
    elif target == "t1":
        world = E.gen_world(rng.stream("world"), n_agents=1, max_graphs=3, odd_ids=False)
        if len(world["graphs"]) < 2:
            g0 = sorted(world["graphs"])[0]
            world["graphs"]["g:extra"] = copy.deepcopy(world["graphs"][g0])
        raw = E.valid_cfg(rng.stream("config"), ["t1", "t1cache"], p=0.4)
        if r.chance(0.5):
            raw["perf"] = {"enabled": True, "metrics": {"report_memory": r.chance(0.7)},
                           "t1": {"cache": r.choice([{"max_entries": 1, "max_bytes": 0}, {"max_entries": 0, "max_bytes": 150}, {"max_entries": 8, "max_bytes": 100000}])}}
            if r.chance(0.4):
                raw["perf"]["t1"]["caps"] = r.choice([{"frontier": 2}, {"visited": 2}])
        prog.update({"world": world, "cfg": raw, "workers": r.randint(2, 8),
                     "texts": [E.gen_text(rng.stream("ops")) for _ in range(r.randint(1, 3))]})
        if r.chance(0.5):
            # a history: few distinct texts asked again over varying, differently ordered subsets of the graphs, with a
            # result cache small enough to evict - cache recency and eviction order become part of what must be equal
            gids = sorted(world["graphs"])
            base_texts = prog["texts"][:2]
            calls = []
            for _ in range(r.randint(2, 6)):
                sub = r.sample(gids, r.randint(1, len(gids)))
                calls.append({"text": r.choice(base_texts), "graphs": sub})
            prog["calls"] = calls
            if r.chance(0.6):
                raw.setdefault("t1", {})["cache"] = {"max_entries": r.choice([1, 2, 3]), "ttl_s": 300}
        if r.chance(0.35):
            # workers interleave line by line inside the graph store they share (a helper that memoises across calls must not
            # mix graphs up); the result caches are off so that every call really propagates
            prog["preempt_store"] = True
            raw.setdefault("t1", {})["cache"] = {"enabled": False}
            raw.pop("perf", None)
            if not prog.get("calls"):
                gids = sorted(world["graphs"])
                prog["calls"] = [{"text": prog["texts"][0], "graphs": r.sample(gids, len(gids))} for _ in range(r.randint(2, 3))]
    else:
        world = E.gen_world(rng.stream("world"), n_agents=2, max_graphs=1, max_eps=12, odd_ids=False)
        while len(world["episodes"]) < 3:
            world["episodes"].append({"id": "epx%d" % len(world["episodes"]), "owner": "world", "text": " ".join(r.sample(E.VOCAB, 2)),
                                      "ts": E.iso_from_ms(E.T0_MS - 1000).replace("+00:00", "Z"), "vec": "text", "cluster": "c%d" % r.randint(0, 2)})
        if r.chance(0.4):
            # a family of rescaled copies of one vector: their cosines with any query agree to ~1e-8 and now and then to
            # less than the 1e-9 quantum some merge paths rank by; ids are dealt in random order over the shards
            base = " ".join(r.sample(E.VOCAB, 2))
            fam = [{"id": "nd%02d" % i, "owner": "world", "text": base if i == 0 else " ".join(r.sample(E.VOCAB, 2)),
                    "ts": E.iso_from_ms(E.T0_MS - 1000).replace("+00:00", "Z"),
                    "vec": "text" if i == 0 else "near:%r:%s" % (round(r.uniform(0.2, 5.0), 6), base)} for i in range(r.randint(3, 7))]
            r.shuffle(fam)
            for i, e in enumerate(fam):
                e["id"] = "nd%02d" % i
            world["episodes"] = (world["episodes"] + fam)[-14:]
            r.shuffle(world["episodes"])
        if r.chance(0.25) and len(world["episodes"]) >= 2:
            # the same episode id stored more than once (a replayed reflection write re-adds its deterministic id; an import run
            # twice): copies of one or two episodes, identical or with other text/vector, dealt somewhere into the list
            for _ in range(r.randint(1, 3)):
                src = dict(r.choice(world["episodes"]))
                mode = r.choice(["same", "other", "same-vector"])
                if mode == "other":
                    src["text"] = " ".join(r.sample(E.VOCAB, 2))
                    src["vec"] = "text"
                elif mode == "same-vector" and src.get("vec", "text") == "text":
                    # equal similarity to every query, another payload (a colleague's copy of a shared note, a re-dated version)
                    src["vec"] = "text:" + str(src.get("text", ""))
                    src["text"] = str(src.get("text", "")) + " (copy)"
                    src["ts"] = E.iso_from_ms(E.T0_MS - r.choice([1000, 40 * 86_400_000])).replace("+00:00", "Z")
                    src["importance"] = r.choice([0.0, 1.0])
                    if r.chance(0.5):
                        src["owner"] = r.choice(sorted(world["agents"]) + ["world"])
                world["episodes"].insert(r.randint(0, len(world["episodes"])), src)
        raw = E.valid_cfg(rng.stream("config"), ["t2"], p=0.5)
        raw.setdefault("t2", {}).setdefault("sim_threshold", r.choice([-1.0, -0.2, 0.0]))
        raw["t2"]["cache"] = {"enabled": False}
        prog.update({"world": world, "cfg": raw, "workers": r.randint(2, 6), "agent": r.choice(sorted(world["agents"])),
                     "texts": [E.gen_text(rng.stream("ops")) for _ in range(r.randint(1, 2))]})
    return prog


# ---------------------------------------------------------------------------
class _Seams:
    def __init__(self, stream, trace_files=()):
        self.stream = stream
        self.trace_files = tuple(trace_files)

    def __enter__(self):
        self.saved = (upar.ThreadPoolExecutor, ecache.threading, SimExecutor.stream_factory, upar.as_completed)
        upar.ThreadPoolExecutor = SimExecutor  # type: ignore
        upar.as_completed = sim_as_completed  # type: ignore
        ecache.threading = ThreadingShim()  # type: ignore
        self.sched = Sched(self.stream, step_cap=400_000, trace_files=self.trace_files) if self.trace_files else Sched(self.stream)
        self.sched.__enter__()
        SimExecutor.created = 0
        return self.sched

    def __exit__(self, *a):
        self.sched.__exit__(*a)
        upar.ThreadPoolExecutor, ecache.threading, SimExecutor.stream_factory, upar.as_completed = self.saved
        return False


_EXC = {"ValueError": ValueError, "KeyError": KeyError, "RuntimeError": RuntimeError}


def _helper_once(prog: Dict[str, Any], workers: int, stream) -> Tuple[Any, Dict[str, Any]]:
    seen_by_merge: List[Any] = []

    def mk(t):
        def thunk():
            if t["exc"]:
                raise _EXC[t["exc"]]("task %r failed" % (t["key"],))
            return t["val"]
        return thunk

    tasks = [(t["key"], mk(t)) for t in prog["tasks"]]
    order = {"key": (lambda k: k), "neg": (lambda k: (-k if isinstance(k, int) else k)), "const": (lambda k: 0)}[prog["order"]]

    def merge(pairs):
        seen_by_merge.append(list(pairs))
        return list(pairs)

    info: Dict[str, Any] = {}
    with _Seams(stream) as sched:
        try:
            res = ("ok", upar.run_parallel(tasks, max_workers=workers, merge_fn=merge, order_key=order))
        except upar.ParallelError as e:
            res = ("err", [(te.key, te.exc_type) for te in e.errors])
        info["sched"] = sched.digest()
        info["steps"] = sched.steps
        info["pools"] = SimExecutor.created
    info["merge_calls"] = seen_by_merge
    return res, info


def _helper_model(prog: Dict[str, Any], workers: int) -> Any:
    order = {"key": (lambda k: k), "neg": (lambda k: (-k if isinstance(k, int) else k)), "const": (lambda k: 0)}[prog["order"]]
    tasks = prog["tasks"]
    if not tasks:
        return ("ok", [])
    if workers <= 1:
        for t in tasks:  # plain loop: stops at the first failure
            if t["exc"]:
                return ("err", [(t["key"], t["exc"])])
        idx = sorted(range(len(tasks)), key=lambda i: (order(tasks[i]["key"]), i))
        return ("ok", [(tasks[i]["key"], tasks[i]["val"]) for i in idx])
    errs = [i for i, t in enumerate(tasks) if t["exc"]]
    if errs:
        errs.sort(key=lambda i: (order(tasks[i]["key"]), i))
        return ("err", [(tasks[i]["key"], tasks[i]["exc"]) for i in errs])
    idx = sorted(range(len(tasks)), key=lambda i: (order(tasks[i]["key"]), i))
    return ("ok", [(tasks[i]["key"], tasks[i]["val"]) for i in idx])


def _stage_once(prog: Dict[str, Any], parallel: bool, stream) -> Tuple[List[Any], Dict[str, Any]]:
    raw = copy.deepcopy(prog["cfg"])
    if parallel:
        raw.setdefault("perf", {}).setdefault("parallel", {}).update(
            {"enabled": True, "max_workers": int(prog["workers"]), "t1": prog["target"] == "t1", "t2": prog["target"] == "t2"})
    clock = SimClock(None, "steady")
    outs: List[Any] = []
    info: Dict[str, Any] = {}
    with Scratch() as root:
        with E.EngineEnv(root, clock) as ee:
            # helpers every worker calls on the SHARED store are part of the schedule space: in the T1 programs marked so, each
            # line of the graph store is a pre-emption point
            tf = ("clematis/graph/store.py",) if (parallel and prog.get("preempt_store") and stream is not None) else ()
            with _Seams(stream, tf) as sched:
                cfg = E.make_cfg(raw)
                state = E.build_state(prog["world"])
                agent = prog.get("agent") or sorted(prog["world"]["agents"])[0]
                state["active_graphs"] = sorted(prog["world"]["graphs"]) if prog["target"] == "t1" else list(prog["world"]["agents"][agent])
                calls = prog.get("calls") or [{"text": t} for t in prog["texts"]]
                for i, call in enumerate(calls):
                    text = call["text"]
                    if call.get("graphs"):
                        state["active_graphs"] = list(call["graphs"])
                    ctx = E.make_ctx(cfg, agent, i, E.T0_MS + i)
                    if prog["target"] == "t1":
                        res = t1_propagate(ctx, state, text)
                        m = dict(res.metrics)
                        for k in ("parallel_workers", "task_count"):
                            m.pop(k, None)
                        outs.append({"deltas": list(res.graph_deltas), "metrics": m})
                    else:
                        t1 = types.SimpleNamespace(graph_deltas=[], metrics={})
                        res = t2_semantic(ctx, state, text, t1)
                        m = res.metrics
                        outs.append({"retrieved": [[str(x.id), round(float(x.score), 6), getattr(x, "text", ""), getattr(x, "owner", None)] for x in res.retrieved],
                                     "residual": list(res.graph_deltas_residual),
                                     "counters": {k: m.get(k) for k in ("k_returned", "k_used", "k_residual", "tier_sequence", "sim_stats", "score_stats")}})
                info["sched"] = sched.digest()
                info["steps"] = sched.steps
                info["pools"] = SimExecutor.created
                info["locks"] = sched.labels.get("lock.acquire", 0)
    return outs, info


def execute(prog: Dict[str, Any]) -> Dict[str, Any]:
    stats: Dict[str, int] = {}
    violations: List[Dict[str, Any]] = []
    scheds: List[str] = []
    nontrivial = False
    target = prog["target"]
    stats["target_" + target] = 1

    def bad(cls, sig, detail):
        violations.append({"cls": cls, "sig": sig, "detail": detail})

    if target == "helper":
        want = _helper_model(prog, int(prog["workers"]))
        for ss in prog["sched_seeds"]:
            res, info = _helper_once(prog, int(prog["workers"]), Rng(ss).stream("sched"))
            stats["evaluations"] = stats.get("evaluations", 0) + 1
            scheds.append(info["sched"])
            if info["pools"] and len(prog["tasks"]) > 1:
                nontrivial = True
            if res != want:
                kind = "errors" if want[0] == "err" or res[0] == "err" else "order"
                bad("helper", "helper:%s:workers%s" % (kind, "<=1" if int(prog["workers"]) <= 1 else ">1"),
                    "run_parallel returned %s, the sequential model says %s (tasks %s, workers %s, order %s, schedule %s)" % (
                        str(res)[:200], str(want)[:200], prog["tasks"], prog["workers"], prog["order"], info["sched"]))
            if want[0] == "err" and info["merge_calls"]:
                bad("helper", "helper:merge-saw-partial", "merge_fn was called with %s although tasks failed" % (info["merge_calls"],))
            if want[0] == "ok" and len(info["merge_calls"]) != 1:
                bad("helper", "helper:merge-count", "merge_fn called %d times" % len(info["merge_calls"]))
    else:
        try:
            ref, _ = _stage_once(prog, False, None)
        except Exception as e:  # noqa: BLE001
            bad("stage", "%s:sequential-raised:%s" % (target, type(e).__name__), str(e)[:200])
            ref = None
        if ref is not None:
            for ss in prog["sched_seeds"]:
                try:
                    out, info = _stage_once(prog, True, Rng(ss).stream("sched"))
                except Exception as e:  # noqa: BLE001
                    import traceback
                    tb = [f for f in traceback.extract_tb(e.__traceback__) if "/clematis/" in f.filename]
                    bad("stage", "%s:parallel-raised:%s@%s" % (target, type(e).__name__, tb[-1].name if tb else "?"),
                        "parallel path raised %s: %s" % (type(e).__name__, str(e)[:200]))
                    break
                stats["evaluations"] = stats.get("evaluations", 0) + 1
                scheds.append(info["sched"])
                stats["lock_ops"] = stats.get("lock_ops", 0) + int(info.get("locks", 0))
                if info["pools"]:
                    nontrivial = True
                    stats["pools_created"] = stats.get("pools_created", 0) + info["pools"]
                for i, (a, b) in enumerate(zip(ref, out)):
                    if a != b:
                        field = [k for k in a if a.get(k) != b.get(k)][0]
                        sub = ""
                        if isinstance(a[field], dict):
                            sub = ":" + [k for k in a[field] if a[field].get(k) != b[field].get(k)][0]
                        bad("stage", "%s:differs:%s%s" % (target, field, sub),
                            "call %d (%r): sequential %s VS parallel %s (workers %s, schedule %s)" % (
                                i, (prog.get("calls") or [{"text": t} for t in prog["texts"]])[i], str(a[field])[:220], str(b[field])[:220], prog["workers"], info["sched"]))
                        break
    return {"violations": violations, "stats": stats, "faults": {}, "nontrivial": nontrivial,
            "keys": ["%s|%s|%s" % (target, E.jdigest({k: v for k, v in prog.items() if k != "sched_seeds"}), s) for s in scheds] or None,
            "key": E.jdigest(prog), "sched": "+".join(scheds) or None, "sim_s": 0.0, "log": E.jdigest([violations, scheds])}
