"""C14 - config validation is total, pure, consistent, and admits only runnable configs.

Simulation-relevant clause: agreement across PROCESSES - the in-process API variants versus the validate CLI running in two
other interpreters with other PYTHONHASHSEED values, on config files written to the scratch disk.  The remaining clauses
(totality, purity, ranges, runnability) are evaluated on the generated inputs and claimed as sampled only.
"""
from __future__ import annotations

import contextlib
import copy
import io
import json
import math
import os
import signal
import tempfile
from typing import Any, Dict, List, Optional, Tuple

from vsim import use_repo

use_repo()

import yaml  # noqa: E402

from vsim import engine as E  # noqa: E402
from vsim.child import Child, ChildError  # noqa: E402
from vsim.clock import SimClock  # noqa: E402
from vsim.rng import Rng  # noqa: E402
from vsim.scratch import Scratch  # noqa: E402

import configs.validate as V  # noqa: E402
from clematis.errors import ConfigError  # noqa: E402

PROPERTY = "C14"
LEVEL = "exploration"
RUNS = {"quick": 3000, "thorough": 60000}
RULE = ("one run = a config tree built from the v1 key set (swarm of valid knobs) with 0-4 mutations (wrong type, NaN/inf, huge, negative, "
        "empty container, unknown key incl. near-miss spellings, non-string key) written as YAML to the scratch disk; validated through "
        "validate_config, validate_config_api, validate_config_verbose, the compat form and the CLI in two other interpreters under "
        "other hash seeds; accepted configs then drive two turns on a small world. non-trivial = at least one mutation applied or the "
        "config was accepted and executed; distinct = digest of the tree")
REAL = ["configs/validate.py (all API variants)", "clematis/scripts/validate.py:main (CLI) in separate interpreters", "Orchestrator.run_turn under accepted configs"]
STUBS = ["process axis: two persistent child interpreters with PYTHONHASHSEED 1 and 2 (restarted every 40 jobs: fresh and warm)", "clock: SimClock for the turns"]
ASSUMPTIONS = ["inputs are JSON/YAML-shaped (what yaml.safe_load can produce)", "totality/purity/ranges are sampled over generated inputs, not proved",
               "LanceDB, real LLM back ends and zstd are absent; accepted configs selecting them run their documented fallbacks"]
SHRINK_FIELDS = ["mutations"]

_CHILDREN: List[Child] = []

NEAR_MISS = ["cahce", "k_retreival", "enabeld", "t22", "sim_treshold", "budgest", "polcy", "max_worker", "alpha_sim ", "Tiers", "xyz", ""]
BAD_LEAVES: List[Any] = ["str", "nan", "NaN", " nan ", "-nan", "inf", "-Infinity", "1e999", "", [], {}, None, True, -1, 0, 10**30, 10**400, -10**400, {"$pow10": 5000}, {"$yaml": "date"}, {"$yaml": "binary"}, {"$yaml": "set"}, {"$yaml": "datetime"}, 1e308, -1e308, float("nan"), float("inf"), float("-inf"), [1, 2], {"x": 1}, "1", "true", 3.7,
                        [[1]], [{}], [["t2:semantic"]], [None], [1.5, "x"], {"a": [1]}, [[]]]
LIST_KNOBS = [(["t4", "cache", "namespaces"], ["t2:semantic"]), (["t2", "tiers"], ["exact_semantic", "archive"]),
              (["t2", "lancedb"], {"partitions": {"by": ["owner", "quarter"], "shard_order": "lex"}}),
              (["perf", "t2", "reader", "partitions"], {"enabled": True, "by": ["owner"], "layout": "none", "path": "./parts"}),
              (["t4", "cooldowns"], {"EditGraph": 2})]
BAD_ELEMS: List[Any] = [[], {}, ["t2:semantic"], {"k": 1}, None, 5, 1.5, float("nan"), True, "", " ", "unknown:ns"]


# every numeric knob of the v1 tree (the validator's own defaults plus the knobs it documents without a default), and a ladder of
# magnitudes around the limits a validator typically draws (powers of ten, word sizes, open/closed unit interval ends)
EXTRA_NUMERIC = ["t1.iter_cap", "t1.queue_budget", "t1.node_budget", "t1.radius_cap", "t1.relax_cap", "t1.decay.rate", "t1.decay.floor", "t1.decay.alpha",
                 "t2.exact_recent_days", "t2.clusters_top_m", "t2.residual_cap_per_turn", "t3.tokens", "t3.dialogue.include_top_k_snippets",
                 "t3.policy.tau_high", "t3.policy.tau_low", "t3.policy.epsilon_edit", "t2.quality.mmr.lambda", "t2.quality.mmr.k",
                 "t2.quality.fusion.alpha_semantic", "t2.quality.lexical.bm25_k1", "t2.quality.lexical.bm25_b", "perf.t1.cache.max_entries", "perf.t1.cache.max_bytes",
                 "perf.t2.cache.max_entries", "perf.t2.cache.max_bytes", "perf.t1.caps.frontier", "perf.t1.caps.visited", "perf.t1.dedupe_window",
                 "perf.parallel.max_workers", "scheduler.budgets.t1_pops", "scheduler.budgets.t1_iters", "scheduler.budgets.t2_k", "scheduler.budgets.t3_ops",
                 "t4.cooldowns.EditGraph", "k_surface"]
LADDER: List[Any] = [0, 1, 2, 3, 16, 17, 100, 1000, 4096, 65535, 65536, 10**5, 700000, 738000, 800000, 10**6 - 1, 10**6, 10**6 + 1, 10**7, 2**31 - 1, 2**31, 2**63 - 1, 2**63, 2**64,
                     -1, -2, 0.5, 0.999999, 1.0, 1.000001, 1e-9, 1e-07, 2.5e-05, 1e-300, 5e-324, -1e-9, -0.0, 0.1 + 0.2, 1e6, 1e9, 1e15, 1e16, 1e18, 1e100, 1e200, 1e308, 10**400, -10**400, 2.5, "7", "0.5", " 3 ", "1e3"]


def _numeric_paths() -> List[List[str]]:
    out = [x.split(".") for x in EXTRA_NUMERIC]

    def walk(t, pre):
        for k, v in t.items():
            if isinstance(v, dict):
                walk(v, pre + [k])
            elif isinstance(v, (int, float)) and not isinstance(v, bool):
                out.append(pre + [k])
    walk(V.DEFAULTS, [])
    return sorted(out)


class _TurnTooSlow(BaseException):
    pass


def _on_alarm(*_a: Any) -> None:
    raise _TurnTooSlow()


def _paths(tree: Any, prefix: Tuple[Any, ...] = ()) -> List[Tuple[Any, ...]]:
    out = []
    if isinstance(tree, dict):
        for k, v in tree.items():
            out.append(prefix + (k,))
            out.extend(_paths(v, prefix + (k,)))
    return out


def generate(seed: int, tier: str) -> Dict[str, Any]:
    rng = Rng(seed)
    r = rng.stream("gen")
    if r.chance(0.02):
        return {"deep": {"shape": r.choice(["lists", "dicts", "selfref"]), "depth": r.choice([70, 400, 3000, 20000]),
                         "at": r.choice([["flags"], ["flags", "x"], ["t2", "tiers"], ["t4", "cache", "namespaces"], ["version"], ["nonsense"]])},
                "base": {}, "mutations": [], "world": {}, "texts": []}
    fams = [f for f in E.KNOBS if r.chance(0.5)]
    base = E.gen_cfg(rng.stream("config"), fams, p=0.5)
    if r.chance(0.3):
        base["scheduler"] = {"enabled": r.chance(0.5), "policy": r.choice(["round_robin", "fair_queue"]), "quantum_ms": r.choice([1, 20]),
                             "budgets": {"t1_pops": r.choice([None, 0, 5]), "wall_ms": r.choice([20, 200])}}
    if r.chance(0.2):
        base["version"] = r.choice(["v1", "v1", "v2", 1])
    for path, val in LIST_KNOBS:
        if r.chance(0.3):
            E._set_path(base, list(path), copy.deepcopy(val))
    muts = []
    boundary_only = r.chance(0.25)
    if boundary_only:
        # an otherwise valid configuration with ONE knob at the edge of what the validator accepts: the turn must still run
        base = E.valid_cfg(rng.stream("config"), fams, p=0.4)
        first = list(r.choice(_numeric_paths()))
        muts.append({"kind": "set", "path": first, "value": {"$accepted": r.choice(["max", "max", "min"])}})
        if r.chance(0.5):
            # knobs interact (a budget that lets a huge factor be applied twice): one or two more from the same section
            mates = [q for q in _numeric_paths() if q[0] == first[0] and q != first]
            for q in r.sample(mates, min(len(mates), r.randint(1, 2))):
                muts.append({"kind": "set", "path": list(q), "value": {"$accepted": r.choice(["max", "max", "min"])}})
    for _ in range(0 if boundary_only else r.choice([0, 1, 1, 2, 3, 4])):
        kind = r.choice(["leaf", "leaf", "unknown", "nonstring", "section", "list_elem", "boundary", "boundary"])
        ps = _paths(base)
        if kind == "boundary":
            # either a rung of the ladder, or "the largest / smallest rung the validator accepts here" (resolved against the validator at run time)
            muts.append({"kind": "set", "path": list(r.choice(_numeric_paths())), "value": r.choice(LADDER) if r.chance(0.5) else {"$accepted": r.choice(["max", "max", "min"])}})
        elif kind == "leaf" and ps:
            muts.append({"kind": "set", "path": list(r.choice(ps)), "value": r.choice(BAD_LEAVES)})
        elif kind == "list_elem":
            lps = [p for p in ps if isinstance(_get(base, p), list)]
            if lps:
                lp = r.choice(lps)
                cur = list(_get(base, lp))
                bad = r.choice(BAD_ELEMS)
                if cur and r.chance(0.5):
                    cur[r.below(len(cur))] = bad
                else:
                    cur.append(bad)
                muts.append({"kind": "set", "path": list(lp), "value": cur})
        elif kind == "unknown":
            secs = [()] + [p for p in ps if isinstance(_get(base, p), dict)]
            muts.append({"kind": "set", "path": list(r.choice(secs)) + [r.choice(NEAR_MISS)], "value": r.choice([1, "x", {}, None])})
        elif kind == "nonstring":
            secs = [()] + [p for p in ps if isinstance(_get(base, p), dict)]
            muts.append({"kind": "set", "path": list(r.choice(secs)) + [r.choice([5, None, True, 1.5])], "value": r.choice([1, {}])})
        else:
            muts.append({"kind": "set", "path": [r.choice(["t1", "t2", "t3", "t4", "graph", "scheduler", "perf"])], "value": r.choice([None, [], "x", 5, {}])})
    if r.chance(0.08):
        # not-a-number spelled as text on a numeric knob (what YAML 1.1 makes of a bare `nan`): coercion turns it into a float NaN
        # after the point where the written-out NaN is caught
        # (one knob per program - a second one with a two-sided range would get the whole file rejected; half of the time a knob
        # whose documented range is open on one side)
        open_ended = [["t4", "delta_norm_cap_l2"], ["t2", "hybrid", "max_bonus"], ["graph", "decay", "floor"], ["t2", "quality", "fusion", "alpha_semantic"]]
        q = r.choice(open_ended) if r.chance(0.5) else list(r.choice(_numeric_paths()))
        muts.append({"kind": "set", "path": list(q), "value": r.choice(["nan", "NaN", " nan ", "-nan"])})
    if r.chance(0.08):
        # the same offence twice in one section: the validator then says the same sentence twice, and every front door has to
        # pass both on
        muts.append({"kind": "set", "path": ["t4", "cooldowns"], "value": {"$dict": r.choice([[[1, 1], [2, 2]], [[None, 1], [5, 2], [True, 3]], [[1.5, 0], [2.5, 0]]])}})   # non-string keys: kept as pairs in the program
    if r.chance(0.12):
        # the free-form `flags` section accepts anything - also what only YAML can spell, and containers of it
        muts.append({"kind": "set", "path": ["flags", r.choice(["d", "since", "x"])],
                     "value": {"$yaml": r.choice(["date", "set", "datetime", "binary", "list_of_set", "dict_of_date", "date_keyed", "tuple_keyed"])}})
    if r.chance(0.08):
        # the decay section is checked key by key for the knobs the engine knows; whatever else it holds goes along with the
        # section into T1's cache key
        muts.append({"kind": "set", "path": ["t1", "decay", r.choice(["since", "x", "note"])],
                     "value": {"$yaml": r.choice(["date", "set", "datetime", "binary", "dict_of_date", "date_keyed", "tuple_keyed"])}})
    if r.chance(0.06):
        # a rejected value whose text representation contains a set inside a container
        muts.append({"kind": "set", "path": [r.choice(["version", "t2"])] if r.chance(0.5) else ["t2", "backend"], "value": {"$yaml": "list_of_set"}})
    world = E.gen_world(rng.stream("world"), n_agents=1, max_graphs=2, max_eps=6, odd_ids=False)
    texts = [E.gen_text(rng.stream("ops")) for _ in range(2)]
    labelled = [n["label"] for g in world["graphs"].values() for n in g["nodes"] if n.get("label")]
    if labelled:
        texts[0] = r.choice(labelled)  # a text that certainly seeds propagation
    return {"base": base, "mutations": muts, "world": world, "texts": texts, "file_format": r.choice(["yaml", "yaml", "json"]), "json_indent": r.choice([0, 2])}


def _get(tree: Any, path: Tuple[Any, ...]) -> Any:
    cur = tree
    for k in path:
        if not isinstance(cur, dict) or k not in cur:
            return None
        cur = cur[k]
    return cur


def _resolve_accepted(tree: Any, path: List[Any], which: str) -> Any:
    """Largest / smallest numeric rung that the validator accepts at `path` with the rest of `tree` as it is (None: none accepted)."""
    rungs = sorted({float(x) if isinstance(x, float) else x for x in LADDER if isinstance(x, (int, float)) and not isinstance(x, bool)}, reverse=(which == "max"))
    for v in rungs:
        t = copy.deepcopy(tree)
        cur = t
        for k in path[:-1]:
            if not isinstance(cur.get(k), dict):
                cur[k] = {}
            cur = cur[k]
        cur[path[-1]] = v
        try:
            V.validate_config(t)
            return v
        except Exception:  # noqa: BLE001
            continue
    return None


def build(p: Dict[str, Any]) -> Any:
    tree = copy.deepcopy(p["base"])
    for m in p["mutations"]:
        if isinstance(m.get("value"), dict) and "$accepted" in m["value"]:
            if not isinstance(tree, dict):
                continue
            try:
                v = _resolve_accepted(tree, list(m["path"]), m["value"]["$accepted"])
            except Exception:  # noqa: BLE001
                v = None
            if v is None:
                continue
            m = dict(m, value=v)
        if isinstance(m.get("value"), dict) and set(m["value"]) == {"$yaml"}:
            # values only YAML can spell (the CLI reads YAML): kept symbolic in the program
            import datetime as _dt
            m = dict(m, value={"date": _dt.date(2024, 1, 1), "binary": b"hi", "set": {"a", "b"},
                               "datetime": _dt.datetime(2024, 1, 1, 12, 0, 0),
                               "list_of_set": [{"alpha", "beta", "gamma", "delta", "epsilon"}],
                               "dict_of_date": {"since": _dt.date(2024, 1, 1)},
                               "date_keyed": {_dt.date(2020, 1, 1): True, "plain": 1},
                               "tuple_keyed": {("a", 1): "x"}}[m["value"]["$yaml"]])
        if isinstance(m.get("value"), dict) and set(m["value"]) == {"$dict"}:
            m = dict(m, value={kv[0]: kv[1] for kv in m["value"]["$dict"]})
        if isinstance(m.get("value"), dict) and set(m["value"]) == {"$pow10"}:
            m = dict(m, value=10 ** int(m["value"]["$pow10"]))   # kept symbolic in the program: no decimal text exists for it
        cur = tree
        ok = True
        for k in m["path"][:-1]:
            if not isinstance(cur, dict):
                ok = False
                break
            if not isinstance(cur.get(k), dict):
                cur[k] = {}
            cur = cur[k]
        if ok and isinstance(cur, dict):
            cur[m["path"][-1]] = copy.deepcopy(m["value"])
    return tree


def _sig_of(obj: Any) -> str:
    return json.dumps(obj, sort_keys=True, default=repr, allow_nan=True) if _all_str_keys(obj) else repr(obj)


def _all_str_keys(obj: Any) -> bool:
    if isinstance(obj, dict):
        return all(isinstance(k, str) for k in obj) and all(_all_str_keys(v) for v in obj.values())
    if isinstance(obj, list):
        return all(_all_str_keys(v) for v in obj)
    return True


def cli_validate(text: str, suffix: str = ".yaml") -> Dict[str, Any]:
    """Runs in a child interpreter: the validate CLI on a config file."""
    import clematis.scripts.validate as cli
    fd, path = tempfile.mkstemp(suffix=suffix, dir="/dev/shm" if os.path.isdir("/dev/shm") else None)
    try:
        with os.fdopen(fd, "w", encoding="utf-8") as fh:
            fh.write(text)
        out, err = io.StringIO(), io.StringIO()
        with contextlib.redirect_stdout(out), contextlib.redirect_stderr(err):
            try:
                rc = cli.main(["validate_config.py", path])
            except SystemExit as e:
                rc = int(e.code or 0)
            except Exception as e:  # noqa: BLE001
                return {"rc": -1, "out": out.getvalue(), "exc": "%s: %s" % (type(e).__name__, str(e)[:200])}
        # machine-readable mode of the same script: same verdict, and what it prints for an accepted file is JSON
        outj, errj = io.StringIO(), io.StringIO()
        rcj: Any = None
        excj = None
        with contextlib.redirect_stdout(outj), contextlib.redirect_stderr(errj):
            try:
                rcj = cli.main(["validate_config.py", "--json", path])
            except SystemExit as e:
                rcj = int(e.code or 0)
            except Exception as e:  # noqa: BLE001
                excj = "%s: %s" % (type(e).__name__, str(e)[:200])
        json_ok = None
        if excj is None and rcj == 0:
            try:
                json.loads(outj.getvalue())
                json_ok = True
            except Exception:  # noqa: BLE001
                json_ok = False
        # the umbrella command `python -m clematis validate <file>` is the same validator behind another front door
        out2, err2 = io.StringIO(), io.StringIO()
        rc2: Any = None
        exc2 = None
        cwd = os.getcwd()
        try:
            os.chdir(os.path.dirname(path))   # no ./configs/config.yaml here: a dropped path argument cannot hide behind a default
            import clematis.cli.main as umbrella
            with contextlib.redirect_stdout(out2), contextlib.redirect_stderr(err2):
                try:
                    rc2 = umbrella.main(["validate", path])
                except SystemExit as e:
                    rc2 = int(e.code or 0)
                except Exception as e:  # noqa: BLE001
                    exc2 = "%s: %s" % (type(e).__name__, str(e)[:200])
            # ... and its machine-readable mode (which runs the script in a subprocess and picks the JSON out of its output)
            out3, err3 = io.StringIO(), io.StringIO()
            rc3: Any = None
            exc3 = None
            import zlib
            if zlib.crc32(text.encode("utf-8", "surrogatepass")) % 5 == 0:   # a fifth of the files: each costs an interpreter start
                from vsim import REPO as _repo
                saved_pp = os.environ.get("PYTHONPATH")
                os.environ["PYTHONPATH"] = os.path.realpath(_repo) + (os.pathsep + saved_pp if saved_pp else "")
                try:
                    with contextlib.redirect_stdout(out3), contextlib.redirect_stderr(err3):
                        try:
                            rc3 = umbrella.main(["validate", "--json", path])
                        except SystemExit as e:
                            rc3 = int(e.code or 0)
                        except Exception as e:  # noqa: BLE001
                            exc3 = "%s: %s" % (type(e).__name__, str(e)[:200])
                finally:
                    if saved_pp is None:
                        os.environ.pop("PYTHONPATH", None)
                    else:
                        os.environ["PYTHONPATH"] = saved_pp
            else:
                rc3 = "skipped"
        finally:
            os.chdir(cwd)
        return {"rc": rc, "out": out.getvalue(), "hashseed": os.environ.get("PYTHONHASHSEED"),
                "umbrella_json": {"rc": rc3, "exc": exc3, "err": err3.getvalue()[-200:]},
                "umbrella": {"rc": rc2, "out": out2.getvalue(), "err": err2.getvalue()[-300:], "exc": exc2},
                "json_mode": {"rc": rcj, "exc": excj, "json_ok": json_ok, "err": errj.getvalue()[-200:]}}
    finally:
        try:
            os.remove(path)
        except OSError:
            pass


def _fp(o: Any) -> Any:
    """Structural fingerprint (type-exact, order-preserving) that also works for integers without a decimal text."""
    if isinstance(o, dict):
        return ("d", tuple((_fp(k), _fp(v)) for k, v in o.items()))
    if isinstance(o, (list, tuple)):
        return ("l" if isinstance(o, list) else "t", tuple(_fp(x) for x in o))
    if isinstance(o, bool) or o is None:
        return ("c", o)
    if isinstance(o, int):
        return ("i", o.bit_length(), o % 2305843009213693951, o < 0)
    if isinstance(o, float):
        return ("f", "nan" if o != o else repr(o))
    return (type(o).__name__, repr(o)[:200])


def _safe(e: BaseException) -> str:
    try:
        return repr(e)[:200]
    except Exception:  # noqa: BLE001
        return type(e).__name__


def _show(tree: Any, text: Optional[str]) -> str:
    if text is not None:
        return text[:400]

    def short(o):
        if isinstance(o, dict):
            return {short(k) if not isinstance(k, str) else k: short(v) for k, v in o.items()}
        if isinstance(o, list):
            return [short(x) for x in o]
        if isinstance(o, int) and not isinstance(o, bool) and abs(o) > 10**30:
            return "<int with %d bits>" % o.bit_length()
        return o
    return repr(short(tree))[:400]


def _classify_exc(e: BaseException) -> str:
    import traceback
    tb = traceback.extract_tb(e.__traceback__)
    fr = [f for f in tb if "/configs/" in f.filename or "/clematis/" in f.filename]
    return "%s@%s" % (type(e).__name__, fr[-1].name if fr else "?")


def execute(p: Dict[str, Any]) -> Dict[str, Any]:
    stats: Dict[str, int] = {"evaluations": 1}
    viol: List[Dict[str, Any]] = []

    def bad(sig, detail):
        if not any(v["sig"] == sig for v in viol):
            viol.append({"cls": "config", "sig": sig, "detail": detail})

    if p.get("deep"):
        # a value nested thousands of levels deep (or a mapping that contains itself, as a YAML alias can): only the API
        # variants are exercised, each on a freshly built input - the harness itself could not copy or print such a value
        def mk() -> Dict[str, Any]:
            d = p["deep"]
            if d["shape"] == "selfref":
                t: Dict[str, Any] = {}
                t[d["at"][0]] = t
                return t
            leaf: Any = []
            cur = leaf
            for _ in range(int(d["depth"])):
                nxt: Any = {"k": []} if d["shape"] == "dicts" else []
                if isinstance(cur, list):
                    cur.append(nxt)
                    cur = nxt if isinstance(nxt, list) else nxt["k"]
            t = {}
            node = t
            for k in d["at"][:-1]:
                node = node.setdefault(k, {})
            node[d["at"][-1]] = leaf
            return t
        for name, call in (("validate_config", lambda t: V.validate_config(t)), ("validate_config_api", lambda t: V.validate_config_api(t)),
                           ("validate_config_verbose", lambda t: V.validate_config_verbose(t)), ("compat-form", lambda t: V.validate_config(t, strict=True))):
            try:
                call(mk())
                stats["deep_accepted"] = stats.get("deep_accepted", 0) + 1
            except ConfigError:
                stats["deep_rejected"] = stats.get("deep_rejected", 0) + 1
            except Exception as e:  # noqa: BLE001
                bad("total:%s:%s:deep-value" % (name, type(e).__name__), "%s on a value %s at %s" % (type(e).__name__, p["deep"], p["deep"]["at"]))
        return {"violations": viol, "stats": stats, "faults": {}, "nontrivial": True, "key": E.jdigest(p["deep"]), "sim_s": 0.0, "log": E.jdigest(viol)}
    tree_mem = build(p)
    text: Optional[str]
    as_json = False
    try:
        if p.get("file_format") == "json":
            # the configuration kept as a JSON document (what json.dumps writes, small floats in exponent form included): the API
            # sees what json.loads reads, the CLI is given the .json file
            text = json.dumps(tree_mem, ensure_ascii=False, indent=int(p.get("json_indent", 0)) or None)
            tree = json.loads(text)
            as_json = True
            stats["json_documents"] = 1
        else:
            raise TypeError("yaml")
    except Exception:
        text = None
    try:
        if text is None:
            text = yaml.safe_dump(tree_mem, sort_keys=False, allow_unicode=True)
            tree = yaml.safe_load(text)
    except Exception:
        # no YAML text exists for this mapping (e.g. an integer beyond the int<->str digit limit): the in-memory API variants
        # are still in the quantifier ("JSON/YAML-shaped input"), only the CLI comparison is skipped
        text, tree = None, copy.deepcopy(tree_mem)
        stats["no_yaml_text"] = 1
    if not isinstance(tree, dict):
        tree = {} if tree is None else tree
    snapshot = _fp(tree)
    # ---- totality + purity of the primary API ----
    verdict: Dict[str, Any] = {}
    try:
        norm = V.validate_config(tree)
        verdict = {"ok": True, "msgs": []}
        if not isinstance(norm, dict):
            bad("api:returned-non-dict", repr(type(norm)))
    except ConfigError as e:
        norm = None
        verdict = {"ok": False, "msgs": str(e).strip().split("\n")}
    except Exception as e:  # noqa: BLE001
        bad("total:validate_config:%s" % _classify_exc(e), "%r on %s" % (str(e)[:200], _show(tree, text)))
        return {"violations": viol, "stats": stats, "faults": {}, "nontrivial": True, "key": E.jdigest(_show(tree, text)), "sim_s": 0.0, "log": "exc"}
    if _fp(tree) != snapshot:
        bad("purity:input-mutated", "validate_config changed its argument: %s" % _show(tree, text))
    stats["accepted" if verdict["ok"] else "rejected"] = 1
    if verdict["ok"] and isinstance(norm, dict):
        # the result belongs to the caller: no list or mapping inside it may be the very object that sits in the caller's input,
        # in the validator's module-level defaults, or in the result of another call (checked by identity - changing a shared
        # object to prove the point would poison this process)
        def _containers(o, acc, depth=0):
            if depth > 12 or not isinstance(o, (dict, list)):
                return acc
            acc[id(o)] = o
            for v in (o.values() if isinstance(o, dict) else o):
                _containers(v, acc, depth + 1)
            return acc
        try:
            mine = _containers(norm, {})
            mine.pop(id(norm), None)
            shared_in = [k for k in mine if k in _containers(tree, {})]
            shared_def = [k for k in mine if k in _containers(getattr(V, "DEFAULTS", {}), {})]
            other = V.validate_config(copy.deepcopy(tree))
            shared_other = [k for k in mine if k in _containers(other, {})]
            if shared_in:
                stats["result_shares_objects_with_input"] = 1   # observed, not demanded: the property forbids mutating the input, not aliasing it
            if shared_def or shared_other:
                bad("purity:result-shares-state-with-validator", "the returned configuration holds an object of the validator's own state (%s): a caller changing its configuration changes what the validator returns next; %s" % (
                    str(mine[(shared_def or shared_other)[0]])[:80], _show(tree, text)))
        except ConfigError:
            pass
    if verdict["ok"] and isinstance(norm, dict):
        # what the validator returns is "a normalised configuration": it is itself acceptable (it obeys the validator's
        # own range rules)
        try:
            V.validate_config(copy.deepcopy(norm))  # (that normalising twice changes nothing is NOT demanded: the property does not say so)
        except ConfigError as e:
            bad("normal-form:rejected", "the normal form of an accepted configuration is rejected: %s ; input %s" % (str(e)[:200], _show(tree, text)))
        except Exception as e:  # noqa: BLE001
            bad("normal-form:raised:%s" % _classify_exc(e), "%r; input %s" % (str(e)[:200], _show(tree, text)))
    # ---- API variants ----
    try:
        ok2, errs2, cfg2 = V.validate_config_api(copy.deepcopy(tree))
        if ok2 != verdict["ok"] or (not ok2 and errs2 != verdict["msgs"]) or (ok2 and _fp(cfg2) != _fp(norm)):
            bad("consistency:validate_config_api", "api says ok=%s errs=%s; primary ok=%s msgs=%s" % (ok2, errs2[:3], verdict["ok"], verdict["msgs"][:3]))
    except Exception as e:  # noqa: BLE001
        bad("total:validate_config_api:%s" % _classify_exc(e), _safe(e))
    try:
        n3, w3 = V.validate_config_verbose(copy.deepcopy(tree))
        if not verdict["ok"] or _fp(n3) != _fp(norm):
            bad("consistency:validate_config_verbose", "verbose accepted/normalised differently")
    except ConfigError as e:
        if verdict["ok"] or str(e).strip().split("\n") != verdict["msgs"]:
            bad("consistency:validate_config_verbose", "verbose raised %s; primary ok=%s" % (str(e)[:200], verdict["ok"]))
    except Exception as e:  # noqa: BLE001
        bad("total:validate_config_verbose:%s" % _classify_exc(e), _safe(e))
    try:
        errs4, warns4 = V.validate_config(copy.deepcopy(tree), strict=True)
        if (not errs4) != verdict["ok"] or (errs4 and list(errs4) != verdict["msgs"]):
            bad("consistency:compat-form", "compat errs=%s; primary ok=%s msgs=%s" % (list(errs4)[:3], verdict["ok"], verdict["msgs"][:3]))
    except Exception as e:  # noqa: BLE001
        bad("total:compat-form:%s" % _classify_exc(e), _safe(e))
    # ---- CLI in other interpreters / hash seeds ----
    if not _CHILDREN:
        _CHILDREN.extend([Child("1"), Child("2")])
    faults: Dict[str, int] = {}
    for ch in (_CHILDREN if text is not None else []):
        try:
            res = ch.call("checks.c14", "cli_validate", {"text": text, "suffix": ".json" if as_json else ".yaml"})
        except ChildError as e:
            raise RuntimeError("child failed: %s" % str(e)[-800:])
        fresh = bool(res.pop("_fresh_interpreter", False))
        faults["cli_hashseed_%s_%s" % (ch.hashseed, "fresh" if fresh else "warm")] = 1
        if "exc" in res:
            bad("total:cli:%s" % res["exc"].split(":")[0], "CLI raised %s" % res["exc"])
            continue
        jm = res.get("json_mode") or {}
        if jm:
            if jm.get("exc"):
                bad("total:cli-json:%s" % str(jm["exc"]).split(":")[0], "validate --json raised %s" % jm["exc"])
            elif (jm.get("rc") == 0) != (res["rc"] == 0):
                bad("consistency:cli-json-vs-plain", "--json rc=%s (stderr %r), plain rc=%s" % (jm.get("rc"), jm.get("err"), res["rc"]))
            elif jm.get("json_ok") is False:
                bad("consistency:cli-json-not-json", "--json printed something that is not JSON for an accepted file")
        uj = res.get("umbrella_json") or {}
        if uj and uj.get("rc") != "skipped":
            stats["umbrella_json_runs"] = stats.get("umbrella_json_runs", 0) + 1
            if uj.get("exc"):
                bad("total:cli-umbrella-json:%s" % str(uj["exc"]).split(":")[0], "python -m clematis validate --json raised %s" % uj["exc"])
            elif jm and not jm.get("exc") and (uj.get("rc") == 0) != (jm.get("rc") == 0):
                bad("consistency:cli-umbrella-json-vs-script", "`clematis validate --json`: rc=%s (stderr %r); the script with --json: rc=%s" % (uj.get("rc"), uj.get("err"), jm.get("rc")))
        um = res.get("umbrella") or {}
        if um:
            if um.get("exc"):
                bad("total:cli-umbrella:%s" % str(um["exc"]).split(":")[0], "python -m clematis validate raised %s" % um["exc"])
            elif (um.get("rc"), um.get("out")) != (res["rc"], res["out"]):
                bad("consistency:cli-umbrella-vs-script", "`clematis validate <file>`: rc=%s out=%r err=%r; the script on the same file: rc=%s out=%r" % (
                    um.get("rc"), (um.get("out") or "")[:120], (um.get("err") or "")[-160:], res["rc"], res["out"][:120]))
        lines = res["out"].rstrip("\n").split("\n")
        if verdict["ok"]:
            if res["rc"] != 0 or lines[0] != "OK":
                bad("consistency:cli-vs-api:verdict", "API accepts, CLI rc=%s first line %r (hashseed %s)" % (res["rc"], lines[0], ch.hashseed))
        else:
            if res["rc"] != 1 or lines[0] != "CONFIG INVALID":
                bad("consistency:cli-vs-api:verdict", "API rejects, CLI rc=%s first line %r (hashseed %s)" % (res["rc"], lines[0], ch.hashseed))
            elif [x.strip() for x in lines[1:]] != [x.strip() for x in verdict["msgs"]]:
                # (messages are compared modulo outer whitespace: the API variants strip the joined text, the CLI prints it raw)
                diff = [(a, b) for a, b in zip(lines[1:], verdict["msgs"]) if a.strip() != b.strip()][:1]
                kind = "did-you-mean" if diff and "did you mean" in (diff[0][0] + diff[0][1]) else "other"
                bad("consistency:cli-vs-api:messages:%s" % kind, "hashseed %s: %s" % (ch.hashseed, diff or (lines[1:3], verdict["msgs"][:2])))
    # ---- accepted configs: ranges + runnable ----
    if verdict["ok"] and norm is not None and not viol:
        def num(path):
            v = _get(norm, tuple(path))
            return v if isinstance(v, (int, float)) and not isinstance(v, bool) else None
        ranges = [(["t2", "k_retrieval"], 1, None), (["t2", "sim_threshold"], -1.0, 1.0), (["t3", "max_ops_per_turn"], 1, 16), (["t3", "max_rag_loops"], 0, 1),
                  (["t4", "delta_norm_cap_l2"], 0, None), (["t4", "novelty_cap_per_node"], 0, 1), (["t4", "churn_cap_edges"], 0, None),
                  (["t4", "snapshot_every_n_turns"], 1, None), (["t1", "node_budget"], 0, None), (["t1", "iter_cap"], 0, None), (["t1", "queue_budget"], 0, None),
                  (["t1", "radius_cap"], None, None), (["t2", "ranking", "alpha_sim"], 0, 1), (["t2", "ranking", "beta_recency"], 0, 1),
                  (["t2", "ranking", "gamma_importance"], 0, 1), (["graph", "update", "alpha"], 0, None), (["graph", "decay", "half_life_turns"], 1, None),
                  (["graph", "coactivation_threshold"], 0, 1), (["scheduler", "quantum_ms"], 1, None), (["t4", "weight_min"], -1, 1), (["t4", "weight_max"], -1, 1)]
        for path, lo, hi in ranges:
            v = num(path)
            if v is None:
                continue
            if isinstance(v, float) and math.isnan(v):
                bad("range:nan-accepted:%s" % ".".join(path), "%s = %r accepted" % (".".join(path), v))
            elif (lo is not None and v < lo) or (hi is not None and v > hi):
                bad("range:out-of-range-accepted:%s" % ".".join(path), "%s = %r accepted (documented [%s, %s])" % (".".join(path), v, lo, hi))
        ks0 = norm.get("k_surface", 32)
        if isinstance(ks0, int) and 65536 < ks0 < 2**61:
            # an embedding dimension in this band is a memory question (4*k bytes per vector, gigabytes), not a raise;
            # the harness does not allocate it.  (From 2**61 on the encoder fails at once, without allocating.)
            stats["skipped_huge_dimension"] = 1
        elif not viol:
            clock = SimClock(None, "steady")
            with Scratch() as root:
                with E.EngineEnv(root, clock) as ee:
                    ks = norm.get("k_surface", 32)
                    prev_dim = E.set_world_dim(ks if isinstance(ks, int) and not isinstance(ks, bool) and 1 <= ks <= 65536 else 32)
                    try:
                        cfg = E.to_attr(copy.deepcopy(norm))
                        cfg.setdefault("t4", E.AttrDict())["snapshot_dir"] = ee.snap
                        state = E.build_state(p["world"])
                        agent = sorted(p["world"]["agents"])[0]
                        state["active_graphs"] = list(p["world"]["agents"][agent])
                        # "without raising" is what is decided here; a configuration that removes every termination budget
                        # (t1.queue_budget 1e308 with decay.rate 1 on a cyclic graph) does not raise, it spins: the harness
                        # abandons such a turn after 30 s of wall time and counts it, it is neither a pass nor a violation
                        signal.signal(signal.SIGALRM, _on_alarm)
                        signal.alarm(30)
                        try:
                            for i, text_in in enumerate(p["texts"]):
                                ctx = E.make_ctx(cfg, agent, i, E.T0_MS + i * 1000)
                                E.orch.run_turn(ctx, state, text_in)
                            stats["executed"] = 1
                        except _TurnTooSlow:
                            stats["abandoned_endless_turn"] = 1
                        finally:
                            signal.alarm(0)
                    except Exception as e:  # noqa: BLE001
                        bad("runnable:%s" % _classify_exc(e), "accepted config made a turn raise %r; config: %s" % (str(e)[:200], _show(tree, text)))
                    finally:
                        E.set_world_dim(prev_dim)
    return {"violations": viol, "stats": stats, "faults": faults, "nontrivial": bool(p["mutations"]) or bool(stats.get("executed")),
            "key": E.jdigest(_show(tree, text)), "sim_s": 0.0, "log": E.jdigest([verdict, viol])}
