"""C07 - delta snapshots reconstruct the full payload exactly.

Payload pairs with adversarial keys (dots, empty strings, unicode, keys colliding with dotted paths; dict<->list<->scalar
replacement) go through the codec law and through the real writer/reader on a scratch disk, where the baseline is then
left intact, removed, truncated, garbled or lost by a kill during its write; reads go by path, by etag and through
load_latest_snapshot.
"""
from __future__ import annotations

import copy
import json
import logging
import os
import types
from typing import Any, Dict, List, Optional

from vsim import use_repo

use_repo()
logging.getLogger().setLevel(logging.CRITICAL)

from vsim import engine as E  # noqa: E402
from vsim.clock import SimClock  # noqa: E402
from vsim.fs import FaultPlan, SimCrash, SimFS  # noqa: E402
from vsim.rng import Rng  # noqa: E402
from vsim.scratch import Scratch  # noqa: E402

import clematis.engine.snapshot as esnap  # noqa: E402
from clematis.engine.util.snapshot_delta import apply_delta, compute_delta  # noqa: E402
from clematis.io.snapshot import read_snapshot  # noqa: E402

PROPERTY = "C07"
LEVEL = "exploration"
RUNS = {"quick": 4000, "thorough": 60000}
RULE = ("one run = a (base, current) pair of snapshot-shaped payloads whose node/edge ids and extra keys are drawn from an adversarial "
        "alphabet ('.', '', 'a.b', unicode, keys equal to dotted paths of other keys; values switching between dict, list and scalar) + a "
        "baseline fate (intact / never written / removed / truncated at byte k / garbled / killed during its write at I/O step k) + reads by "
        "path, by etag and through load_latest_snapshot. non-trivial = the delta is non-empty; distinct = digest of the program")
REAL = ["snapshot_delta.compute_delta/apply_delta", "snapshot.write_snapshot_auto/_write_lines/read_snapshot/load_latest_snapshot/_pick_latest_snapshot_path"]
STUBS = ["file layer under the writer: SimFS (kill point during the baseline write)", "baseline corruption: harness-side truncate/garble/remove"]
ASSUMPTIONS = ["codec 'none' only (zstandard is not installed)",
               "with a missing/unreadable baseline the reader may return the full sibling, {} / not-loaded, or raise - never a dict different from the payload"]
SHRINK_FIELDS = ["edits"]

# includes every character str.splitlines() treats as a line boundary (the snapshot file format is line based)
KEYS = ["a", "b", "a.b", ".", "", "a.", ".b", "x.y.z", "ü", "n→1", "_adds", "weight", "a\\.b", " ", "l\u2028s", "p\u2029s", "n\x85l", "cr\rlf", "vt\x0bff\x0c", "fs\x1cgs\x1d"]


def _val(r, depth=0) -> Any:
    x = r.random()
    if x < 0.35 or depth > 2:
        return r.choice([0, 1, -1.5, "s", "", None, True, [], [1, 2], {"": 0}, "line\u2028sep", "nel\x85", "para\u2029", "cr\r", "\x1e", "tab\tnl\n"])
    if x < 0.5:
        return [r.choice([1, "x", None]) for _ in range(r.randint(0, 3))]
    return {r.choice(KEYS): _val(r, depth + 1) for _ in range(r.randint(0, 3))}


def _payload(r, version: str) -> Dict[str, Any]:
    nodes = {r.choice(KEYS + ["n1", "n2"]): {"id": "n", "label": r.choice(["x", "y"])} for _ in range(r.randint(0, 4))}
    edges = {}
    for _ in range(r.randint(0, 3)):
        a, b = r.choice(["n1", "n.2", "ü", "a.b"]), r.choice(["n1", "n.2", "z"])
        s, d = (a, b) if a <= b else (b, a)
        edges["%s→%s" % (s, d)] = {"id": "%s→%s" % (s, d), "src": s, "dst": d, "rel": "coact", "weight": r.choice([round(r.uniform(-1, 1), 3), 0.3, 0.0, 1e-13]), "updated_at": None, "attrs": {}}
    weights = [{"target_kind": "node", "target_id": r.choice(["n1", "n.2", "ü"]), "attr": "weight", "value": round(r.uniform(-1, 1), 3)} for _ in range(r.randint(0, 3))]
    p = {"schema_version": "v1", "version_etag": version, "turn": r.randint(0, 9), "agent": "Ambrose", "store": {"weights": weights},
         "gel": {"nodes": nodes, "edges": edges, "meta": {"schema": "v1.1", "merges": [], "splits": [], "promotions": [], "concept_nodes_count": 0,
                                                          "edges_count": len(edges)}}}
    for _ in range(r.randint(0, 3)):
        p[r.choice(KEYS)] = _val(r)
    return p


def _mutate(r, base: Dict[str, Any]) -> List[Dict[str, Any]]:
    """Edits as data (so they can be minimised)."""
    edits = []
    # nudge existing float leaves by less than any "tolerance": the reconstruction must be EXACT
    floats = []

    def walk(o, path):
        if isinstance(o, dict):
            for k, v in o.items():
                walk(v, path + [k])
        elif isinstance(o, float):
            floats.append((path, o))
    walk(base, [])
    for path, val in floats:
        if r.chance(0.25):
            import math as _m
            edits.append({"path": path, "kind": "set", "value": r.choice([_m.nextafter(val, 2.0), _m.nextafter(val, -2.0), val + 1e-13, val * (1 + 1e-15), 0.1 + 0.2 if val == 0.3 else val - 1e-14])})
    for _ in range(r.randint(0, 6)):
        edits.append({"path": [r.choice(["gel", "store", r.choice(KEYS)])] + [r.choice(KEYS + ["nodes", "edges"]) for _ in range(r.randint(0, 2))],
                      "kind": r.choice(["set", "set", "del"]), "value": _val(r)})
    return edits


def _apply_edits(obj: Dict[str, Any], edits: List[Dict[str, Any]]) -> Dict[str, Any]:
    out = copy.deepcopy(obj)
    for e in edits:
        cur = out
        ok = True
        for k in e["path"][:-1]:
            if not isinstance(cur.get(k), dict):
                if e["kind"] == "del":
                    ok = False
                    break
                cur[k] = {}
            cur = cur[k]
        if not ok:
            continue
        if e["kind"] == "set":
            cur[e["path"][-1]] = copy.deepcopy(e["value"])
        else:
            cur.pop(e["path"][-1], None)
    return out


def generate(seed: int, tier: str) -> Dict[str, Any]:
    rng = Rng(seed)
    r = rng.stream("gen")
    base = _payload(rng.stream("base"), "7")
    edits = _mutate(rng.stream("edits"), base)
    fate = r.weighted([("intact", 4), ("never_written", 1), ("removed", 2), ("truncated", 1), ("garbled", 1), ("killed", 2)])
    return {"base": base, "edits": edits, "cur_version": "8", "fate": fate, "cut": r.randint(0, 200), "kill_at": r.randint(0, 30),
            "full_sibling": r.chance(0.3)}


def execute(p: Dict[str, Any]) -> Dict[str, Any]:
    stats: Dict[str, int] = {"evaluations": 1, "fate_" + p["fate"]: 1}
    viol: List[Dict[str, Any]] = []

    def bad(sig, detail):
        if not any(v["sig"] == sig for v in viol):
            viol.append({"cls": "delta", "sig": sig, "detail": detail})

    base = copy.deepcopy(p["base"])
    cur = _apply_edits(base, p["edits"])
    cur["version_etag"] = p["cur_version"]
    # ---- codec law ----
    b0, c0 = copy.deepcopy(base), copy.deepcopy(cur)
    try:
        delta = compute_delta(base, cur)
        rebuilt = apply_delta(base, delta)
    except Exception as e:  # noqa: BLE001
        bad("codec:raised:%s" % type(e).__name__, repr(e)[:200])
        delta, rebuilt = None, None
    if base != b0 or cur != c0:
        bad("codec:mutates-arguments", "compute/apply changed their inputs")
    nontrivial = bool(delta and (delta.get("_adds") or delta.get("_mods") or delta.get("_dels")))
    if rebuilt is not None and rebuilt != cur:
        diff_keys = sorted(k for k in set(rebuilt) | set(cur) if rebuilt.get(k) != cur.get(k))[:4]
        # classify by the kind of key that breaks it
        def kinds(obj, acc):
            if isinstance(obj, dict):
                for k, v in obj.items():
                    if k == "":
                        acc.add("empty-key")
                    elif "." in k:
                        acc.add("dotted-key")
                    kinds(v, acc)
            return acc
        ks = sorted(kinds(cur, set()) | kinds(base, set()))
        bad("codec:roundtrip:" + ("+".join(ks) or "plain-keys"),
            "apply_delta(base, compute_delta(base, cur)) != cur at top-level keys %s; delta=%s" % (diff_keys, json.dumps(delta)[:300]))
    # ---- disk ----
    clock = SimClock(None, "steady")
    with Scratch("snap") as root:
        d = os.path.join(root, "snap")
        with E.EngineEnv(root, clock):
            fate = p["fate"]
            base_path = None
            if fate != "never_written":
                faults = [{"k": int(p["kill_at"]), "kind": "crash"}] if fate == "killed" else []
                fs = SimFS(root, plan=FaultPlan(faults), clock=clock)
                with fs:
                    try:
                        base_path, _ = esnap.write_snapshot_auto(d, etag_from=None, etag_to="7", payload=base, delta_mode=False)
                    except SimCrash:
                        stats["kills_fired"] = 1
            try:
                cur_path, wrote_delta = esnap.write_snapshot_auto(d, etag_from="7", etag_to="8", payload=cur, delta_mode=True)
            except Exception as e:  # noqa: BLE001
                bad("writer:raised:%s" % type(e).__name__, repr(e)[:200])
                cur_path, wrote_delta = None, False
            baseline_ok_at_write = os.path.exists(os.path.join(d, "snapshot-7.full.json"))
            if cur_path is not None:
                stats["wrote_delta" if wrote_delta else "wrote_full"] = 1
                if wrote_delta and not baseline_ok_at_write:
                    bad("writer:delta-without-baseline", "a delta was written although no baseline file exists")
                if p.get("full_sibling") and wrote_delta:
                    esnap.write_snapshot_auto(d, etag_from=None, etag_to="8", payload=cur, delta_mode=False)
                # baseline fate after the delta was written
                bp = os.path.join(d, "snapshot-7.full.json")
                if wrote_delta and fate in ("removed", "truncated", "garbled") and os.path.exists(bp):
                    if fate == "removed":
                        os.remove(bp)
                        try:
                            os.remove(bp + ".meta")
                        except OSError:
                            pass
                    elif fate == "truncated":
                        data = open(bp, "rb").read()
                        open(bp, "wb").write(data[: int(p["cut"]) % max(1, len(data))])
                    else:
                        open(bp, "wb").write(b"\x00\xff{not json" + bytes(range(20)))
                    stats["baseline_damaged"] = 1
                intact = fate in ("intact", "never_written", "killed") or not wrote_delta
                readers = {
                    "by-path": lambda: read_snapshot(path=cur_path),
                    "by-etag": lambda: read_snapshot(root=d, etag_to="8"),
                }
                for name, fn in readers.items():
                    try:
                        got = fn()
                    except Exception as e:  # noqa: BLE001
                        if intact:
                            bad("reader:%s:raised-with-intact-baseline:%s" % (name, type(e).__name__), repr(e)[:200])
                        continue
                    if intact:
                        if got != cur:
                            dk = sorted(k for k in set(got) | set(cur) if got.get(k) != cur.get(k))[:4]
                            bad("reader:%s:wrong-payload-with-intact-baseline" % name, "differs at %s (delta written: %s)" % (dk, wrote_delta))
                    elif got not in (cur, {}):
                        bad("reader:%s:wrong-payload-with-damaged-baseline:%s" % (name, fate),
                            "reader returned a dict that is neither the payload nor {} (keys %s)" % (sorted(got)[:6],))
                # load_latest_snapshot: make the delta/current file the newest one
                try:
                    os.utime(cur_path, ns=(clock.wall_ns + 10**12, clock.wall_ns + 10**12))
                except OSError:
                    pass
                cfg = {"t4": {"snapshot_dir": d}}
                ctx = types.SimpleNamespace(cfg=cfg, config=cfg, agent_id="Ambrose", turn_id=0)

                class _S:
                    def __init__(self):
                        self.w = {}
                st: Dict[str, Any] = {"store": _S(), "version_etag": "0"}
                try:
                    res = esnap.load_latest_snapshot(ctx, st)
                except Exception as e:  # noqa: BLE001
                    res = None
                    if intact:
                        bad("loader:raised-with-intact-baseline:%s" % type(e).__name__, repr(e)[:200])
                if res is not None and res.get("loaded") and res.get("path") == cur_path:
                    want_w = {(w["target_kind"], w["target_id"], w["attr"]): float(w["value"]) for w in ((cur.get("store") or {}).get("weights") or [])} \
                        if isinstance(cur.get("store"), dict) and isinstance((cur.get("store") or {}).get("weights"), list) else None
                    ok_version = str(st.get("version_etag")) == str(cur.get("version_etag"))
                    ok_store = want_w is None or st["store"].w == want_w
                    if not (ok_version and ok_store):
                        bad("loader:loaded-wrong-state:%s" % ("intact" if intact else fate),
                            "load_latest_snapshot reported loaded=True but version=%r (payload %r), store weights %s (payload %s)" % (
                                st.get("version_etag"), cur.get("version_etag"), st["store"].w, want_w))
                elif res is not None and intact and not res.get("loaded") and res.get("path") == cur_path:
                    bad("loader:not-loaded-with-intact-baseline", str(res))
    return {"violations": viol, "stats": stats, "faults": {"kill_during_baseline_write": stats.get("kills_fired", 0), "baseline_damaged": stats.get("baseline_damaged", 0)},
            "nontrivial": nontrivial, "key": E.jdigest(p), "sim_s": 0.0, "log": E.jdigest(viol)}
