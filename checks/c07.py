"""C07 - delta snapshots reconstruct the full payload exactly.

Payload pairs with adversarial keys (dots, empty strings, unicode, keys colliding with dotted paths; dict<->list<->scalar
replacement) go through the codec law and through the real writer/reader on a scratch disk, where the baseline is then
left intact, removed, truncated, garbled or lost by a kill during its write; reads go by path, by etag and through
load_latest_snapshot.
"""
from __future__ import annotations

import copy
import json
import logging
import os
import types
from typing import Any, Dict, List, Optional

from vsim import use_repo

use_repo()
logging.getLogger().setLevel(logging.CRITICAL)

from vsim import engine as E  # noqa: E402
from vsim.clock import SimClock  # noqa: E402
from vsim.fs import FaultPlan, SimCrash, SimFS  # noqa: E402
from vsim.rng import Rng  # noqa: E402
from vsim.scratch import Scratch  # noqa: E402

import clematis.engine.snapshot as esnap  # noqa: E402
from clematis.engine.util.snapshot_delta import apply_delta, compute_delta  # noqa: E402
from clematis.io.snapshot import read_snapshot  # noqa: E402

PROPERTY = "C07"
LEVEL = "exploration"
RUNS = {"quick": 4000, "thorough": 60000}
RULE = ("one run = a (base, current) pair of snapshot-shaped payloads whose node/edge ids and extra keys are drawn from an adversarial "
        "alphabet ('.', '', 'a.b', unicode, keys equal to dotted paths of other keys; values switching between dict, list and scalar) + a "
        "baseline fate (intact / never written / removed / truncated at byte k / garbled / killed during its write at I/O step k) + reads by "
        "path, by etag and through load_latest_snapshot. non-trivial = the delta is non-empty; distinct = digest of the program")
REAL = ["snapshot_delta.compute_delta/apply_delta", "snapshot.write_snapshot_auto/_write_lines/read_snapshot/load_latest_snapshot/_pick_latest_snapshot_path"]
STUBS = ["file layer under the writer: SimFS (kill point during the baseline write)", "baseline corruption: harness-side truncate/garble/remove"]
ASSUMPTIONS = ["codec 'none' only (zstandard is not installed)",
               "with a missing/unreadable baseline the reader may return the full sibling, {} / not-loaded, or raise - never a dict different from the payload"]
SHRINK_FIELDS = ["edits"]

# includes every character str.splitlines() treats as a line boundary (the snapshot file format is line based)
KEYS = ["a", "b", "a.b", ".", "", "a.", ".b", "x.y.z", "ü", "n→1", "_adds", "weight", "a\\.b", "d\\", "\\", "\\\\", "C:\\data\\", "\\.", ".\\", " ", "l\u2028s", "p\u2029s", "n\x85l", "cr\rlf", "vt\x0bff\x0c", "fs\x1cgs\x1d"]


def _val(r, depth=0) -> Any:
    x = r.random()
    if x < 0.35 or depth > 2:
        return r.choice([0, 1, -1.5, "s", "", None, True, [], [1, 2], {"": 0}, "line\u2028sep", "nel\x85", "para\u2029", "cr\r", "\x1e", "tab\tnl\n"])
    if x < 0.5:
        return [r.choice([1, "x", None]) for _ in range(r.randint(0, 3))]
    return {r.choice(KEYS): _val(r, depth + 1) for _ in range(r.randint(0, 3))}


def _same(a: Any, b: Any) -> bool:
    """Exactly the same JSON value: 1 / true / 1.0 and 0.0 / -0.0 are different payloads although Python's == equates them."""
    try:
        return json.dumps(a, sort_keys=True, ensure_ascii=True) == json.dumps(b, sort_keys=True, ensure_ascii=True)
    except Exception:  # noqa: BLE001
        return a == b


_TWINS = [(1, True), (0, False), (1, 1.0), (0, 0.0), (0.0, -0.0), ([1], [True]), ([0.0], [-0.0]), ({"k": 0}, {"k": False}), (2, 2.0), ("1", 1)]


def _payload(r, version: str) -> Dict[str, Any]:
    nodes = {r.choice(KEYS + ["n1", "n2"]): {"id": "n", "label": r.choice(["x", "y"])} for _ in range(r.randint(0, 4))}
    edges = {}
    for _ in range(r.randint(0, 3)):
        a, b = r.choice(["n1", "n.2", "ü", "a.b"]), r.choice(["n1", "n.2", "z"])
        s, d = (a, b) if a <= b else (b, a)
        edges["%s→%s" % (s, d)] = {"id": "%s→%s" % (s, d), "src": s, "dst": d, "rel": "coact", "weight": r.choice([round(r.uniform(-1, 1), 3), 0.3, 0.0, 1e-13]), "updated_at": None, "attrs": {}}
    weights = [{"target_kind": "node", "target_id": r.choice(["n1", "n.2", "ü"]), "attr": "weight", "value": round(r.uniform(-1, 1), 3)} for _ in range(r.randint(0, 3))]
    p = {"schema_version": "v1", "version_etag": version, "turn": r.randint(0, 9), "agent": "Ambrose", "store": {"weights": weights},
         "gel": {"nodes": nodes, "edges": edges, "meta": {"schema": "v1.1", "merges": [], "splits": [], "promotions": [], "concept_nodes_count": 0,
                                                          "edges_count": len(edges)}}}
    for _ in range(r.randint(0, 3)):
        p[r.choice(KEYS)] = _val(r)
    return p


def _mutate(r, base: Dict[str, Any]) -> List[Dict[str, Any]]:
    """Edits as data (so they can be minimised)."""
    edits = []
    # nudge existing float leaves by less than any "tolerance": the reconstruction must be EXACT
    floats = []

    def walk(o, path):
        if isinstance(o, dict):
            for k, v in o.items():
                walk(v, path + [k])
        elif isinstance(o, float):
            floats.append((path, o))
    walk(base, [])
    for path, val in floats:
        if r.chance(0.25):
            import math as _m
            edits.append({"path": path, "kind": "set", "value": r.choice([_m.nextafter(val, 2.0), _m.nextafter(val, -2.0), val + 1e-13, val * (1 + 1e-15), 0.1 + 0.2 if val == 0.3 else val - 1e-14])})
    if r.chance(0.3):
        # a scalar replaced by a value Python calls equal but JSON does not (int / bool / float, signed zero): the edit sets
        # the first of a twin pair in the base and the second in the current payload
        a, b = r.choice(_TWINS)
        if r.chance(0.5):
            a, b = b, a
        path = [r.choice(["gel", r.choice(KEYS)])] + [r.choice(KEYS) for _ in range(r.randint(0, 1))]
        edits.append({"path": path, "kind": "twin", "base_value": a, "value": b})
    if r.chance(0.25):
        # ... and the same inside a dictionary that sits in a LIST (lists are compared as values, element by element): an applied
        # delta, a merge record
        a, b = r.choice(_TWINS[:5] + [(2, 2.0)])
        if r.chance(0.5):
            a, b = b, a
        lk = r.choice(["deltas", "merges", r.choice(KEYS)])
        edits.append({"path": [lk], "kind": "twin", "base_value": [{"id": "n1", "v": a, "keep": [1, "x"]}, 7],
                      "value": [{"id": "n1", "v": b, "keep": [1, "x"]}, 7]})
    if r.chance(0.15):
        # the in-memory base holds ONE sub-object under two keys (a payload assembled from shared pieces); only one of them changes
        k1, k2 = r.sample(KEYS[:6], 2)
        edits.append({"path": [k1], "kind": "alias", "of": [k2], "shared": {"k": 1, "n": {"m": 2}}})
        edits.append({"path": [k1, r.choice(["k", "n"])], "kind": "set", "value": r.choice([2, {"m": 3}, "x"])})
    for _ in range(r.randint(0, 6)):
        edits.append({"path": [r.choice(["gel", "store", r.choice(KEYS)])] + [r.choice(KEYS + ["nodes", "edges"]) for _ in range(r.randint(0, 2))],
                      "kind": r.choice(["set", "set", "del"]), "value": _val(r)})
    return edits


def _plain(o: Any) -> Any:
    """A copy that shares nothing, not even what the original shared with itself."""
    if isinstance(o, dict):
        return {k: _plain(v) for k, v in o.items()}
    if isinstance(o, list):
        return [_plain(v) for v in o]
    return o


def _apply_edits(obj: Dict[str, Any], edits: List[Dict[str, Any]], inplace: bool = False) -> Dict[str, Any]:
    out = obj if inplace else _plain(obj)
    for e in edits:
        cur = out
        ok = True
        for k in e["path"][:-1]:
            if not isinstance(cur.get(k), dict):
                if e["kind"] == "del":
                    ok = False
                    break
                cur[k] = {}
            cur = cur[k]
        if not ok:
            continue
        if e["kind"] == "alias":
            continue
        if e["kind"] in ("set", "twin"):
            cur[e["path"][-1]] = copy.deepcopy(e["value"])
        else:
            cur.pop(e["path"][-1], None)
    return out


def generate(seed: int, tier: str) -> Dict[str, Any]:
    rng = Rng(seed)
    r = rng.stream("gen")
    base = _payload(rng.stream("base"), "7")
    if r.chance(0.06):
        base = {}   # the very first snapshot of an engine that has nothing yet: an empty payload is a payload
    edits = _mutate(rng.stream("edits"), base)
    if not base and not edits:
        edits = [{"path": ["gel"], "kind": "set", "value": {"nodes": {}, "edges": {}}}]
    # "altered": the baseline is still a well-formed full snapshot of that etag, with another payload (bit rot that happens to
    # parse, a restore of an older file under the same name)
    fate = r.weighted([("intact", 4), ("never_written", 1), ("removed", 2), ("truncated", 1), ("garbled", 1), ("killed", 2), ("altered", 1)])
    return {"base": base, "edits": edits, "cur_version": "8", "fate": fate, "cut": r.randint(0, 200), "kill_at": r.randint(0, 30),
            "full_sibling": r.chance(0.4), "damage_before_write": r.chance(0.5), "sibling_fate": r.choice([None, None, "truncated", "garbled"]), "in_place": r.chance(0.4),
            # the file being read is itself torn (power loss while it was written by something else than the atomic writer,
            # a partial copy): after its header line, just before, or in the middle of the body
            "target_torn": r.choice([None] * 8 + ["header", "header_nl", "mid"]),
            # every codec the writer accepts; zstandard is not installed here, where the writer documents a fall-back to "none"
            "compression": r.choice(["none", "none", "none", "zstd"])}


def execute(p: Dict[str, Any]) -> Dict[str, Any]:
    stats: Dict[str, int] = {"evaluations": 1, "fate_" + p["fate"]: 1}
    viol: List[Dict[str, Any]] = []

    def bad(sig, detail):
        if not any(v["sig"] == sig for v in viol):
            viol.append({"cls": "delta", "sig": sig, "detail": detail})

    base = _apply_edits(p["base"], [{"path": e["path"], "kind": "set", "value": e["base_value"]} for e in p["edits"] if e["kind"] == "twin"])
    for e in p["edits"]:
        if e["kind"] == "alias":
            shared = copy.deepcopy(e["shared"])
            base[e["path"][0]] = shared
            base[e["of"][0]] = shared      # the same object under a second key
    cur = _apply_edits(base, p["edits"])
    cur["version_etag"] = p["cur_version"]
    # ---- codec law ----
    b0, c0 = copy.deepcopy(base), copy.deepcopy(cur)
    try:
        delta = compute_delta(base, cur)
        rebuilt = apply_delta(base, delta)
    except Exception as e:  # noqa: BLE001
        bad("codec:raised:%s" % type(e).__name__, repr(e)[:200])
        delta, rebuilt = None, None
    if base != b0 or cur != c0:
        bad("codec:mutates-arguments", "compute/apply changed their inputs")
    nontrivial = bool(delta and (delta.get("_adds") or delta.get("_mods") or delta.get("_dels")))
    if rebuilt is not None and not _same(rebuilt, cur):
        diff_keys = sorted(k for k in set(rebuilt) | set(cur) if not _same(rebuilt.get(k), cur.get(k)))[:4]
        # classify by the kind of key that breaks it
        def kinds(obj, acc):
            if isinstance(obj, dict):
                for k, v in obj.items():
                    if k == "":
                        acc.add("empty-key")
                    elif "." in k:
                        acc.add("dotted-key")
                    kinds(v, acc)
            return acc
        ks = sorted(kinds(cur, set()) | kinds(base, set()))
        bad("codec:roundtrip:" + ("+".join(ks) or "plain-keys"),
            "apply_delta(base, compute_delta(base, cur)) != cur at top-level keys %s; delta=%s" % (diff_keys, json.dumps(delta)[:300]))
    # ---- disk ----
    clock = SimClock(None, "steady")
    with Scratch("snap") as root:
        d = os.path.join(root, "snap")
        with E.EngineEnv(root, clock):
            fate = p["fate"]
            base_path = None
            if fate != "never_written":
                faults = [{"k": int(p["kill_at"]), "kind": "crash"}] if fate == "killed" else []
                fs = SimFS(root, plan=FaultPlan(faults), clock=clock)
                with fs:
                    # the engine snapshots ONE long-lived state object turn after turn: with "in_place" the object handed to the
                    # baseline write is the very object that is then edited and handed to the delta-mode write
                    live = copy.deepcopy(base) if p.get("in_place") else base
                    try:
                        base_path, _ = esnap.write_snapshot_auto(d, etag_from=None, etag_to="7", payload=live, delta_mode=False, compression=p.get("compression", "none"))
                    except SimCrash:
                        stats["kills_fired"] = 1
                    if p.get("in_place"):
                        _apply_edits(live, p["edits"], inplace=True)
                        live["version_etag"] = p["cur_version"]
                        cur = live
                        stats["in_place_payloads"] = 1
            sibling_damaged = False
            damaged_before = False
            bp0 = os.path.join(d, "snapshot-7.full.json")
            if p.get("damage_before_write") and fate in ("truncated", "garbled") and os.path.exists(bp0):
                # the baseline is already corrupt when the NEXT snapshot is written: the writer must not diff against it
                data0 = open(bp0, "rb").read()
                if fate == "truncated":
                    cuts = [0, 5, len(data0.split(b"\n")[0]), len(data0.split(b"\n")[0]) + 1, int(p["cut"]) % max(1, len(data0))]
                    open(bp0, "wb").write(data0[: cuts[int(p["cut"]) % len(cuts)]])
                else:
                    open(bp0, "wb").write(b"\x00\xff{not json" + bytes(range(20)))
                damaged_before = True
                stats["baseline_damaged_before_write"] = 1
            try:
                cur_path, wrote_delta = esnap.write_snapshot_auto(d, etag_from="7", etag_to="8", payload=cur, delta_mode=True, compression=p.get("compression", "none"))
            except Exception as e:  # noqa: BLE001
                bad("writer:raised:%s%s" % (type(e).__name__, ":damaged-baseline" if damaged_before else ""), repr(e)[:200])
                cur_path, wrote_delta = None, False
            if damaged_before and cur_path is not None:
                if wrote_delta:
                    bad("writer:delta-against-damaged-baseline", "a delta was written although the baseline file is corrupt (%s)" % fate)
                else:
                    try:
                        got0 = read_snapshot(root=d, etag_to="8")
                        if not _same(got0, cur):
                            bad("writer:fallback-full-not-readable", "the full snapshot written instead of a delta reads back differently")
                    except Exception as e:  # noqa: BLE001
                        bad("writer:fallback-full-not-readable", repr(e)[:200])
            baseline_ok_at_write = os.path.exists(os.path.join(d, "snapshot-7.full.json"))
            if cur_path is not None:
                stats["wrote_delta" if wrote_delta else "wrote_full"] = 1
                if wrote_delta and not baseline_ok_at_write:
                    bad("writer:delta-without-baseline", "a delta was written although no baseline file exists")
                if p.get("full_sibling") and wrote_delta:
                    sp, _ = esnap.write_snapshot_auto(d, etag_from=None, etag_to="8", payload=cur, delta_mode=False, compression=p.get("compression", "none"))
                    if p.get("sibling_fate") and fate in ("removed", "truncated", "garbled"):
                        # the fall-back file is damaged too: the readers then have nothing trustworthy and must say so
                        sdata = open(sp, "rb").read()
                        head = len(sdata.split(b"\n")[0])
                        cuts = [0, 5, head, head + 1, int(p["cut"]) % max(1, len(sdata))]
                        open(sp, "wb").write(sdata[: cuts[int(p["cut"]) % len(cuts)]] if p["sibling_fate"] == "truncated" else b"\xfe\xff[garbage")
                        stats["sibling_damaged"] = 1
                        sibling_damaged = True
                # baseline fate after the delta was written
                bp = os.path.join(d, "snapshot-7.full.json")
                if wrote_delta and fate == "altered" and os.path.exists(bp):
                    blines = open(bp, "rb").read().decode("utf-8").split("\n")
                    try:
                        bpay = json.loads(blines[1])
                        if isinstance(bpay, dict):
                            ks = sorted(bpay, key=str)
                            if ks and int(p["cut"]) % 2:
                                bpay.pop(ks[int(p["cut"]) % len(ks)])
                            else:
                                bpay["altered-%d" % (int(p["cut"]) % 7)] = {"v": int(p["cut"])}
                            open(bp, "wb").write((blines[0] + "\n" + json.dumps(bpay, sort_keys=True, separators=(",", ":"), ensure_ascii=False) + "\n").encode("utf-8"))
                            stats["baseline_damaged"] = 1
                        else:
                            fate = "intact"
                    except Exception:  # noqa: BLE001
                        fate = "intact"
                if wrote_delta and fate in ("removed", "truncated", "garbled") and os.path.exists(bp):
                    if fate == "removed":
                        os.remove(bp)
                        try:
                            os.remove(bp + ".meta")
                        except OSError:
                            pass
                    elif fate == "truncated":
                        data = open(bp, "rb").read()
                        open(bp, "wb").write(data[: int(p["cut"]) % max(1, len(data))])
                    else:
                        open(bp, "wb").write(b"\x00\xff{not json" + bytes(range(20)))
                    stats["baseline_damaged"] = 1
                intact = fate in ("intact", "never_written", "killed") or not wrote_delta
                if p.get("target_torn") and not p.get("full_sibling"):
                    tdata = open(cur_path, "rb").read()
                    if int(p["cut"]) % 3 == 0 and p.get("compression", "none") == "none":
                        # a file of the same layout written by other tooling (the repository's own tests write headers with
                        # "schema": 1): the header line is a header whatever its schema field says
                        tdata = tdata.replace(b'"schema":"snapshot:v1"', b'"schema":1', 1).replace(b'"schema": "snapshot:v1"', b'"schema": 1', 1)
                        open(cur_path, "wb").write(tdata)
                        stats["foreign_schema_header"] = 1
                    head = len(tdata.split(b"\n")[0])
                    tcut = {"header": head, "header_nl": head + 1, "mid": head + 1 + (len(tdata) - head - 1) // 2}[p["target_torn"]]
                    if tcut < len(tdata):
                        open(cur_path, "wb").write(tdata[:tcut])
                        stats["target_torn"] = 1
                        intact = False
                        fate = "target-torn-" + p["target_torn"]
                readers = {
                    "by-path": lambda: read_snapshot(path=cur_path),
                    "by-etag": lambda: read_snapshot(root=d, etag_to="8"),
                }
                for name, fn in readers.items():
                    try:
                        got = fn()
                    except Exception as e:  # noqa: BLE001
                        if intact:
                            bad("reader:%s:raised-with-intact-baseline:%s" % (name, type(e).__name__), repr(e)[:200])
                        continue
                    if intact:
                        if not _same(got, cur):
                            dk = sorted(k for k in set(got) | set(cur) if not _same(got.get(k), cur.get(k)))[:4]
                            bad("reader:%s:wrong-payload-with-intact-baseline" % name, "differs at %s (delta written: %s)" % (dk, wrote_delta))
                    elif got not in (cur, {}):
                        bad("reader:%s:wrong-payload-with-damaged-baseline:%s" % (name, fate),
                            "reader returned a dict that is neither the payload nor {} (keys %s)" % (sorted(got)[:6],))
                # load_latest_snapshot: make the delta/current file the newest one
                try:
                    os.utime(cur_path, ns=(clock.wall_ns + 10**12, clock.wall_ns + 10**12))
                except OSError:
                    pass
                cfg = {"t4": {"snapshot_dir": d}}
                ctx = types.SimpleNamespace(cfg=cfg, config=cfg, agent_id="Ambrose", turn_id=0)

                class _S:
                    def __init__(self):
                        self.w = {}
                st: Dict[str, Any] = {"store": _S(), "version_etag": "0"}
                try:
                    res = esnap.load_latest_snapshot(ctx, st)
                except Exception as e:  # noqa: BLE001
                    res = None
                    if intact:
                        bad("loader:raised-with-intact-baseline:%s" % type(e).__name__, repr(e)[:200])
                if res is not None and res.get("loaded") and res.get("path") == cur_path:
                    want_w = {(w["target_kind"], w["target_id"], w["attr"]): float(w["value"]) for w in ((cur.get("store") or {}).get("weights") or [])} \
                        if isinstance(cur.get("store"), dict) and isinstance((cur.get("store") or {}).get("weights"), list) else None
                    ok_version = str(st.get("version_etag")) == str(cur.get("version_etag"))
                    ok_store = want_w is None or st["store"].w == want_w
                    if not (ok_version and ok_store):
                        bad("loader:loaded-wrong-state:%s" % ("intact" if intact else fate),
                            "load_latest_snapshot reported loaded=True but version=%r (payload %r), store weights %s (payload %s)" % (
                                st.get("version_etag"), cur.get("version_etag"), st["store"].w, want_w))
                elif res is not None and intact and not res.get("loaded") and res.get("path") == cur_path:
                    bad("loader:not-loaded-with-intact-baseline", str(res))
    return {"violations": viol, "stats": stats, "faults": {"kill_during_baseline_write": stats.get("kills_fired", 0), "baseline_damaged": stats.get("baseline_damaged", 0)},
            "nontrivial": nontrivial, "key": E.jdigest(p), "sim_s": 0.0, "log": E.jdigest(viol)}
