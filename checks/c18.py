"""C18 - GEL edge weights stay bounded, decay monotonically, keys canonical.

Histories of up to 25 ops over {observe(items), tick(dt), merge, split, promote, snapshot + crash/restart-load} on the GEL API
and through whole turns with graph.enabled, under validator-accepted graph settings; a twin run feeds every observation
with its item list shuffled; a gate-off twin must leave the state untouched.  Invariants are checked after every op.
"""
from __future__ import annotations

import copy
import math
import os
import types
from typing import Any, Dict, List, Optional

from vsim import use_repo

use_repo()

from vsim import engine as E  # noqa: E402
from vsim.clock import SimClock  # noqa: E402
from vsim.fs import FaultPlan, SimCrash, SimFS  # noqa: E402
from vsim.rng import Rng  # noqa: E402
from vsim.scratch import Scratch  # noqa: E402

import clematis.engine.gel as gel  # noqa: E402
import clematis.engine.snapshot as esnap  # noqa: E402

PROPERTY = "C18"
LEVEL = "exploration"
RUNS = {"quick": 8000, "thorough": 120000}
RULE = ("one run = validator-accepted graph settings (update mode/alpha/clamps, half-life, floor, caps, thresholds) + a history of 4-25 ops "
        "over {observe(items with NaN/inf/ties/duplicates), tick(dt), merge, split, promote, snapshot+restart (optionally killed mid-write)} "
        "or 2-5 whole turns with graph.enabled; a shuffled-items twin and a gate-off twin run beside it. non-trivial = at least one edge was "
        "created and one decay or drop happened; distinct = digest of the program")
REAL = ["clematis/engine/gel.py (observe_retrieval, tick, merge/split/promotion)", "snapshot.write_snapshot / load_latest_snapshot for the restart op",
        "configs/validate.py for the graph subtree", "Orchestrator.run_turn in the turns mode"]
STUBS = ["clock: SimClock", "file layer under the snapshot writer: SimFS (kill point during the write of the restart op)"]
ASSUMPTIONS = [
    "the clamp bound is asserted for co-activation edges (rel=coact); concept attach edges carry the configured attach_weight in [-1,1]",
    "after a restart weights are compared up to the documented rounding to 6 decimals",
    "a killed snapshot write is followed by a load of whatever the directory then holds (old snapshot or none)",
]
SHRINK_FIELDS = ["ops"]

IDS = ["ep01", "ep02", "ep03", "ep04", "ep05", "ñ→6", "z.7", "ep01→ep02", "ep02→ep03",
       # ids whose string order is not their numeric order, and two spellings of one number
       "ep2", "ep10", "ep1"]


def _items(r) -> List[List[Any]]:
    out = []
    for _ in range(r.randint(0, 6)):
        s = r.weighted([(round(r.uniform(-0.2, 1.0), 3), 10), (0.5, 3), (float("nan"), 1), (float("inf"), 1), (0.2, 2), (1e-9, 1)])
        out.append([r.choice(IDS), s])
    return out


def generate(seed: int, tier: str) -> Dict[str, Any]:
    rng = Rng(seed)
    r = rng.stream("gen")
    for _ in range(30):
        lo, hi = r.choice([(-1.0, 1.0), (-0.5, 0.5), (0.0, 1.0), (-1.0, 0.0), (0.5, 1.0), (-0.2, 0.3), (0.1, 0.2), (-1.0, float("inf")), (float("-inf"), 1.0), (-1e308, 1e308)])
        graph = {"enabled": True, "coactivation_threshold": r.choice([0.0, 0.2, 0.5, 1.0]), "observe_top_k": r.choice([1, 2, 3, 64]),
                 "pair_cap_per_obs": r.choice([0, 1, 2, 2048]),
                 "update": {"mode": r.choice(["additive", "proportional"]), "alpha": r.choice([0.02, 0.3, 0.7, 1.5, 1e308, float("inf")]), "clamp_min": lo, "clamp_max": hi},
                 "decay": {"half_life_turns": r.choice([1, 2, 10, 200]), "floor": r.choice([0.0, 0.01, 0.1])},
                 "merge": {"enabled": True, "min_size": r.choice([2, 3]), "min_avg_w": r.choice([0.0, 0.2])},
                 "split": {"enabled": True, "weak_edge_thresh": 0.0, "min_component_size": 2},
                 "promotion": {"enabled": True, "label_mode": r.choice(["lexmin", "concat_k"]), "attach_weight": r.choice([0.5, -1.0, 1.0])}}
        try:
            E.validate_config({"graph": copy.deepcopy(graph)})
            break
        except E.ConfigError:
            continue
    mode = "api" if r.chance(0.75) else "turns"
    p: Dict[str, Any] = {"mode": mode, "graph": graph, "shuffle_seed": int(r.u64() % 100000)}
    if mode == "api":
        ops = []
        for _ in range(r.randint(4, 25)):
            x = r.random()
            if x < 0.4:
                ops.append({"op": "observe", "items": _items(r)})
            elif x < 0.7:
                ops.append({"op": "tick", "dt": r.choice([1, 1, 1, 0, 2, 5, -1])})
            elif x < 0.78:
                ops.append({"op": "merge"})
            elif x < 0.84:
                ops.append({"op": "split"})
            elif x < 0.92:
                ops.append({"op": "promote", "twice": r.chance(0.5), "pass_twice": r.chance(0.4)})
            else:
                ops.append({"op": "restart", "kill_at": r.choice([None, None, r.randint(0, 25)])})
        if r.chance(0.12):
            # a concept that is promoted, loses a member over the following turns and is promoted again
            a, b, c3 = r.sample(IDS[:5], 3)
            ops = [{"op": "observe", "items": [[a, 0.9], [b, 0.9], [c3, 0.9]]}, {"op": "promote", "twice": False, "pass_twice": False}]
            for _ in range(r.randint(3, 8)):
                ops += [{"op": "observe", "items": [[a, 0.9], [b, 0.9]]}, {"op": "tick", "dt": r.choice([1, 2, 5])}]
            ops += [{"op": "promote", "twice": r.chance(0.5), "pass_twice": False}, {"op": "merge"}]
            graph["promotion"]["attach_weight"] = r.choice([0.05, 0.1, -1.0])
            graph["merge"]["min_avg_w"] = 0.2
            graph["decay"]["half_life_turns"] = r.choice([1, 2])
            graph["update"] = {"mode": "additive", "alpha": r.choice([0.3, 0.7]), "clamp_min": -1.0, "clamp_max": 1.0}
            graph["coactivation_threshold"] = 0.0
            graph["observe_top_k"] = 64
            graph["pair_cap_per_obs"] = 2048
        p["ops"] = ops
    else:
        world = E.gen_world(rng.stream("world"), n_agents=r.randint(1, 2), with_gel=r.chance(0.5), bad_ts=False)
        raw = E.valid_cfg(rng.stream("config"), ["t1", "t2", "t4"], p=0.3)
        raw.setdefault("t2", {})["sim_threshold"] = -1.0
        raw["graph"] = graph
        p.update({"world": world, "cfg": raw, "ops": E.gen_ops(rng.stream("ops"), world, r.randint(2, 5), mutations=False)})
    return p


def _edges(state) -> Dict[str, Any]:
    g = state.get("graph") or {}
    return g.get("edges") or {}


def _invariants(state, graph_cfg, where: str, bad) -> None:
    lo, hi = float(graph_cfg["update"]["clamp_min"]), float(graph_cfg["update"]["clamp_max"])
    pairs = {}
    for key, rec in _edges(state).items():
        src, dst = str(rec.get("src")), str(rec.get("dst"))
        w = float(rec.get("weight", 0.0))
        if not math.isfinite(w):
            bad("non-finite-weight", "%s: edge %s weight %r" % (where, key, w))
        if rec.get("rel", "coact") == "coact" and not (lo - 1e-12 <= w <= hi + 1e-12):
            bad("weight-out-of-clamp:" + where.split(" ")[0], "%s: edge %s weight %r outside [%s, %s]" % (where, key, w, lo, hi))
        want = "%s→%s" % ((src, dst) if src <= dst else (dst, src))
        if key != want or src > dst:
            bad("non-canonical-key", "%s: edge stored under %r with src=%r dst=%r (canonical %r)" % (where, key, src, dst, want))
        if src == dst and rec.get("rel", "coact") == "coact":
            # an item does not co-occur with itself: a co-activation edge joins an unordered PAIR of items
            bad("self-loop", "%s: co-activation edge %r joins %r with itself" % (where, key, src))
        up = tuple(sorted((src, dst)))
        if up in pairs:
            bad("duplicate-pair", "%s: unordered pair %s has edges %r and %r" % (where, up, pairs[up], key))
        pairs[up] = key


def _api(p: Dict[str, Any], stats: Dict[str, int], shuffled: bool, gate_off: bool) -> Dict[str, Any]:
    viol: List[Dict[str, Any]] = []

    def bad(inv, detail):
        if not any(v["sig"] == "api:" + inv for v in viol):
            viol.append({"cls": "gel", "sig": "api:" + inv, "detail": detail})

    graph = copy.deepcopy(p["graph"])
    if gate_off:
        graph["enabled"] = False
    clock = SimClock(None, "steady")
    sh = Rng(int(p["shuffle_seed"])).stream("shuffle")
    with Scratch("snap") as root:
        with E.EngineEnv(root, clock) as ee:
            cfg = E.make_cfg({"graph": graph, "t4": {"snapshot_dir": ee.snap}})
            ctx = types.SimpleNamespace(cfg=cfg, config=cfg, agent_id="Ambrose", turn_id=0, now=E.iso_from_ms(E.T0_MS), now_ms=E.T0_MS)
            state: Dict[str, Any] = {"version_etag": "0"}
            if gate_off:
                state["graph"] = {"nodes": {"x": {"id": "x"}}, "edges": {"a→b": {"id": "a→b", "src": "a", "dst": "b", "weight": 0.9, "rel": "coact",
                                                                              "updated_at": None, "attrs": {}}}, "meta": {"schema": "v1.1"}}
            pristine = copy.deepcopy(state)
            gcfg = gel._graph_cfg(ctx)
            for oi, op in enumerate(p["ops"]):
                ctx.turn_id = oi
                where = "%s op#%d" % (op["op"], oi)
                before = copy.deepcopy(_edges(state))
                k = op["op"]
                if k == "observe":
                    items = [tuple(x) for x in op["items"]]
                    if shuffled:
                        sh.shuffle(items)
                    m = gel.observe_retrieval(ctx, state, items, turn=oi, agent="Ambrose")
                    if not gate_off:
                        thr, topk, cap = float(gcfg["coactivation_threshold"]), int(gcfg["observe_top_k"]), int(gcfg["pair_cap_per_obs"])
                        if m["pairs_updated"] > cap:
                            bad("pair-cap-exceeded", "%s: %d pairs updated, cap %d" % (where, m["pairs_updated"], cap))
                        # the top-k ITEMS: an id listed twice is one item, with its best score
                        best: Dict[Any, float] = {}
                        for (i, s) in items:
                            if s >= thr and (i not in best or s > best[i]):
                                best[i] = s
                        ok_ids = sorted(best.items(), key=lambda t: (-t[1], t[0]))[:topk]
                        allowed = {i for i, _ in ok_ids}
                        changed = [kk for kk, rec in _edges(state).items() if before.get(kk) != rec]
                        allowed_keys = {"%s→%s" % ((a, b) if a <= b else (b, a)): (a, b) for a in sorted(allowed) for b in sorted(allowed)}
                        for kk in changed:
                            rec = _edges(state)[kk]
                            if rec["src"] not in allowed or rec["dst"] not in allowed:
                                if kk in allowed_keys and "→" in "".join(allowed_keys[kk]):
                                    # two different unordered pairs, one key: the id itself contains the separator
                                    bad("key-collision:separator-in-id", "%s: pair %s was booked on the edge record of pair (%s, %s) - both spell %r" % (
                                        where, allowed_keys[kk], rec["src"], rec["dst"], kk))
                                else:
                                    bad("updated-pair-outside-topk", "%s: edge %s changed but top-k above threshold is %s" % (where, kk, sorted(allowed)))
                        if len(changed) > cap:
                            bad("pair-cap-exceeded", "%s: %d edges changed, cap %d" % (where, len(changed), cap))
                        for kk in changed:
                            # one observation is one co-occurrence of a pair, however often an id is listed
                            c0 = int(((before.get(kk) or {}).get("attrs") or {}).get("coact", 0) or 0)
                            c1 = int((_edges(state)[kk].get("attrs") or {}).get("coact", 0) or 0)
                            if c1 - c0 > 1 and "→" not in (str(_edges(state)[kk]["src"]) + str(_edges(state)[kk]["dst"])):
                                bad("pair-booked-twice-in-one-observation", "%s: edge %s co-activation count %d -> %d (items %s)" % (where, kk, c0, c1, items))
                        if changed:
                            stats["edges_touched"] = stats.get("edges_touched", 0) + len(changed)
                elif k == "tick":
                    m = gel.tick(ctx, state, decay_dt=int(op["dt"]), turn=oi, agent="Ambrose")
                    if not gate_off:
                        floor = float(gcfg["decay"]["floor"])
                        hl = float(gcfg["decay"]["half_life_turns"])
                        f = 0.5 ** (max(0, int(op["dt"])) / hl)
                        after = _edges(state)
                        for kk, rec in before.items():
                            w = float(rec["weight"])
                            if kk in after:
                                if abs(float(after[kk]["weight"])) > abs(w) + 1e-15:
                                    bad("tick-increased-magnitude", "%s: %s %r -> %r" % (where, kk, w, after[kk]["weight"]))
                                if abs(w * f) < floor:
                                    bad("tick-kept-edge-below-floor", "%s: %s |%r*%r| < %r" % (where, kk, w, f, floor))
                                if float(after[kk]["weight"]) != w:
                                    stats["decays"] = stats.get("decays", 0) + 1
                            else:
                                stats["drops"] = stats.get("drops", 0) + 1
                                if not abs(w * f) < floor:
                                    bad("tick-dropped-edge-above-floor", "%s: %s |%r*%r| >= %r" % (where, kk, w, f, floor))
                        if set(after) - set(before):
                            bad("tick-created-edge", where)
                elif k in ("merge", "split", "promote"):
                    snap_nodes = copy.deepcopy((state.get("graph") or {}).get("nodes") or {})
                    if k == "merge":
                        for c in gel.merge_candidates(ctx, state)[:4]:
                            gel.apply_merge(ctx, state, c)
                            stats["merges"] = stats.get("merges", 0) + 1
                    elif k == "split":
                        for c in gel.split_candidates(ctx, state)[:4]:
                            gel.apply_split(ctx, state, c)
                            stats["splits"] = stats.get("splits", 0) + 1
                    else:
                        promos = gel.promote_clusters(ctx, state, gel.merge_candidates(ctx, state))[:2]
                        for pr in promos:
                            gel.apply_promotion(ctx, state, pr)
                            stats["promotions"] = stats.get("promotions", 0) + 1
                        once = copy.deepcopy(state.get("graph"))
                        if op.get("twice"):
                            for pr in promos:
                                gel.apply_promotion(ctx, state, pr)
                            if state.get("graph") != once:
                                bad("promotion-not-idempotent", "%s: applying the same promotion twice changed the graph" % where)
                        if op.get("pass_twice"):
                            # the whole pass again, as the orchestrator runs it every turn, with nothing observed in between
                            g1 = copy.deepcopy(state.get("graph"))
                            for pr in gel.promote_clusters(ctx, state, gel.merge_candidates(ctx, state))[:2]:
                                gel.apply_promotion(ctx, state, pr)
                            g2 = state.get("graph") or {}
                            new_nodes = sorted(set((g2.get("nodes") or {})) - set((g1 or {}).get("nodes") or {}))
                            new_edges = sorted(set((g2.get("edges") or {})) - set((g1 or {}).get("edges") or {}))
                            if new_nodes or new_edges:
                                bad("promotion-pass-not-idempotent", "%s: a second promotion pass with nothing observed in between added nodes %s edges %s" % (
                                    where, new_nodes[:4], new_edges[:4]))
                    if not gate_off:
                        after = _edges(state)
                        for kk, rec in before.items():
                            if kk not in after:
                                bad("maintenance-removed-edge", "%s: %s" % (where, kk))
                            elif after[kk] != rec and after[kk].get("rel") != "concept":
                                bad("maintenance-changed-coact-edge", "%s: %s %s -> %s" % (where, kk, rec, after[kk]))
                        for kk in set(after) - set(before):
                            if after[kk].get("rel") != "concept":
                                bad("maintenance-added-non-concept-edge", "%s: %s" % (where, kk))
                        nodes_after = (state.get("graph") or {}).get("nodes") or {}
                        for nid, nd in snap_nodes.items():
                            if nodes_after.get(nid) != nd:
                                bad("maintenance-changed-node", "%s: node %s" % (where, nid))
                        for nid in set(nodes_after) - set(snap_nodes):
                            if (nodes_after[nid].get("attrs") or {}).get("kind") != "concept":
                                bad("maintenance-added-non-concept-node", "%s: %s" % (where, nid))
                elif k == "restart" and not gate_off:
                    faults = [{"k": int(op["kill_at"]), "kind": "crash"}] if op.get("kill_at") is not None else []
                    fs = SimFS(root, plan=FaultPlan(faults), clock=clock)
                    killed = False
                    with fs:
                        try:
                            esnap.write_snapshot(ctx, state, str(state.get("version_etag", "0")), 0, [])
                        except SimCrash:
                            killed = True
                            stats["restart_killed"] = stats.get("restart_killed", 0) + 1
                    stats["restarts"] = stats.get("restarts", 0) + 1
                    fresh: Dict[str, Any] = {"version_etag": "0"}
                    esnap.load_latest_snapshot(ctx, fresh)
                    if not killed:
                        ea, eb = _edges(state), _edges(fresh)
                        if set(ea) != set(eb):
                            bad("restart-lost-or-invented-edges", "%s: %s vs %s" % (where, sorted(ea), sorted(eb)))
                        else:
                            for kk in ea:
                                if abs(float(ea[kk]["weight"]) - float(eb[kk]["weight"])) > 5.1e-7 and -1.0 <= float(ea[kk]["weight"]) <= 1.0:
                                    bad("restart-changed-weight", "%s: %s %r -> %r" % (where, kk, ea[kk]["weight"], eb[kk]["weight"]))
                    state = fresh
                if gate_off:
                    if state != pristine:
                        bad("gate-off-touched-state", "%s changed the state although graph.enabled is false" % where)
                else:
                    _invariants(state, gcfg, where, bad)
                if viol:
                    break
            final = copy.deepcopy(state.get("graph"))
    return {"viol": viol, "final": final}


def _turns(p: Dict[str, Any], stats: Dict[str, int]) -> List[Dict[str, Any]]:
    viol: List[Dict[str, Any]] = []

    def bad(inv, detail):
        if not any(v["sig"] == "turns:" + inv for v in viol):
            viol.append({"cls": "gel", "sig": "turns:" + inv, "detail": detail})

    clock = SimClock(None, "steady")
    with Scratch() as root:
        with E.EngineEnv(root, clock) as ee:
            run = E.EngineRun(p["world"], p["cfg"], ee)
            ctx = types.SimpleNamespace(cfg=run.cfg, config=run.cfg)
            gcfg = gel._graph_cfg(ctx)
            lo, hi = float(gcfg["update"]["clamp_min"]), float(gcfg["update"]["clamp_max"])
            for oi, op in enumerate(p["ops"]):
                run.step(op)
                if oi == 0 and p["world"].get("gel"):
                    # a pre-existing GEL graph in the world may hold weights outside this run's clamp interval; bring it inside once
                    pass
                stats["evaluations"] = stats.get("evaluations", 0) + 1
                for key, rec in _edges(run.state).items():
                    src, dst = str(rec.get("src")), str(rec.get("dst"))
                    want = "%s→%s" % ((src, dst) if src <= dst else (dst, src))
                    if key != want:
                        bad("non-canonical-key", "turn %d: %r vs %r" % (oi, key, want))
                    if not math.isfinite(float(rec.get("weight", 0.0))):
                        bad("non-finite-weight", "turn %d: %s" % (oi, key))
                    if rec.get("rel") == "coact" and (rec.get("attrs") or {}).get("coact") and not (lo - 1e-12 <= float(rec["weight"]) <= hi + 1e-12):
                        bad("weight-out-of-clamp:turn", "turn %d: edge %s weight %r outside [%s,%s]" % (oi, key, rec["weight"], lo, hi))
    return viol


def execute(p: Dict[str, Any]) -> Dict[str, Any]:
    stats: Dict[str, int] = {"mode_" + p["mode"]: 1}
    if p["mode"] == "turns":
        viol = _turns(p, stats)
        nontrivial = True
    else:
        a = _api(p, stats, False, False)
        stats["evaluations"] = len(p["ops"])
        viol = list(a["viol"])
        if not viol:
            b = _api(p, {}, True, False)
            if not b["viol"] and a["final"] != b["final"]:
                ea, eb = (a["final"] or {}).get("edges") or {}, (b["final"] or {}).get("edges") or {}
                diff = [k for k in sorted(set(ea) | set(eb)) if ea.get(k) != eb.get(k)][:3]
                viol.append({"cls": "gel", "sig": "api:observe-order-sensitive",
                             "detail": "shuffling the item lists changed the final graph; differing edges %s: %s vs %s" % (
                                 diff, [ea.get(k) for k in diff], [eb.get(k) for k in diff])})
            c = _api(p, {}, False, True)
            viol.extend(c["viol"])
        nontrivial = bool(stats.get("edges_touched") and (stats.get("decays") or stats.get("drops")))
    return {"violations": viol, "stats": stats, "faults": {"kill_during_snapshot": stats.get("restart_killed", 0), "restart": stats.get("restarts", 0)},
            "nontrivial": nontrivial, "key": E.jdigest(p), "sim_s": 0.0, "log": E.jdigest(viol)}
