"""C15 - bounded caches never exceed capacity and evict deterministically.

(a) sequential operation histories with an injected simulated clock on every container, each beside a small reference
    model written from the class docstring; invariants after every operation;
(b) 2-4 simulated threads through ThreadSafeCache / ThreadSafeBytesCache with SimRLock and line-level pre-emption inside
    the container source files; the invoke/return history (stamped with the scheduler's event sequence, unique values) must
    be linearizable against the model and the structure internally consistent at quiescence;
(c) merge_caches_deterministic over permuted worker lists.
"""
from __future__ import annotations

import itertools
from collections import OrderedDict
from typing import Any, Dict, List, Optional, Tuple

from vsim import use_repo

use_repo()

from vsim.clock import SimClock  # noqa: E402
from vsim.rng import Rng  # noqa: E402
from vsim.sched import Sched, SimRLock, current_thread  # noqa: E402
from vsim import engine as E  # noqa: E402

import clematis.engine.cache as ecache  # noqa: E402
from clematis.engine.cache import CacheManager, LRUCache, ThreadSafeBytesCache, ThreadSafeCache, _NamespaceCache, merge_caches_deterministic  # noqa: E402
from clematis.engine.util.lru_bytes import LRUBytes  # noqa: E402
from clematis.engine.util.lru_det import DeterministicLRU, DeterministicLRUSet  # noqa: E402
from clematis.engine.util.ring import DedupeRing  # noqa: E402
from clematis.engine.util.ring import DeterministicLRU as RingLRU  # noqa: E402

PROPERTY = "C15"
LEVEL = "exploration"
RUNS = {"quick": 20000, "thorough": 300000}
RULE = ("one run = one container kind + capacities/TTL from {0,1,2,3} + an operation history of 5-30 ops over 4 keys and 3 costs with "
        "clock advances/jumps (sequential mode), or 2-4 simulated threads x 2-4 ops through the lock wrappers with line-level "
        "pre-emption (threaded mode), or a merge over permuted worker lists. non-trivial = at least one eviction or TTL expiry or "
        "more than one thread; distinct = digest of (kind, params, ops, schedule)")
REAL = ["LRUBytes", "_NamespaceCache", "LRUCache", "CacheManager", "DeterministicLRU", "DeterministicLRUSet", "ring.DeterministicLRU",
        "DedupeRing", "ThreadSafeCache", "ThreadSafeBytesCache", "merge_caches_deterministic"]
STUBS = ["clock: SimClock via the containers' time_fn parameter", "lock: SimRLock via the wrappers' lock parameter",
         "threads: baton-passing scheduler with sys.settrace line events of lru_bytes.py/cache.py/lru_det.py/ring.py as pre-emption points"]
ASSUMPTIONS = [
    "reference models are written from the class docstrings (LRUBytes rejects an item costlier than max_bytes and leaves an existing entry "
    "as it was; TTL 0 means no expiry; capacity 0 means disabled)",
    "DedupeRing.discard is documented as lazy: after a discard only one-sided membership is asserted",
    "linearizability is checked by exhaustive search over histories of at most 12 operations",
]
SHRINK_FIELDS = ["ops", "threads"]

KEYS = ["a", "b", "c", "d"]
COSTS = [1, 2, 5]
KINDS = ["lrubytes", "nscache", "lrucache", "manager", "detlru", "detset", "ringlru", "ring", "threads_lru", "threads_bytes", "merge"]


def generate(seed: int, tier: str) -> Dict[str, Any]:
    r = Rng(seed).stream("gen")
    kind = r.weighted([(k, 3 if k.startswith("threads") else 2) for k in KINDS])
    p: Dict[str, Any] = {"kind": kind, "max_entries": r.choice([0, 1, 2, 3]), "max_bytes": r.choice([0, 2, 5, 8]),
                         "ttl": r.choice([0, 1, 2, 3]), "flags": [r.chance(0.5), r.chance(0.5)], "sched_seed": int(r.u64() % (1 << 30))}
    p["ttl_alias"] = r.choice(["ttl_s", "ttl_sec", "ttl"])
    p["cap_alias"] = r.choice(["max_entries", "capacity"])
    long_jumps = r.chance(0.3)
    val = itertools.count(1)
    if kind.startswith("threads"):
        p["max_entries"] = r.choice([1, 2, 3])
        threads = []
        for _ in range(r.randint(2, 4)):
            ops = []
            for _ in range(r.randint(2, 4)):
                x = r.random()
                if x < 0.5:
                    ops.append({"op": "put", "k": r.choice(KEYS[:3]), "v": next(val), "c": r.choice(COSTS)})
                elif x < 0.75:
                    ops.append({"op": "get", "k": r.choice(KEYS[:3])})
                elif x < 0.85:
                    ops.append({"op": "contains", "k": r.choice(KEYS[:3])})   # membership prunes an expired entry: not read-only
                elif x < 0.92 and kind == "threads_lru":
                    ops.append({"op": "clock", "k": None, "ms": r.choice([1000, 1001, 2500])})
                else:
                    ops.append({"op": "items", "k": None})  # a snapshot read: must equal the contents at ONE instant
            threads.append(ops)
        total = sum(len(t) for t in threads)
        while total > 11:
            t = max(threads, key=len)
            t.pop()
            total -= 1
        p["threads"] = threads
        return p
    if kind == "merge":
        workers = []
        for w in range(r.randint(1, 4)):
            items = [[r.choice(KEYS), (None if r.chance(0.1) else next(val))] for _ in range(r.randint(0, 4))]
            workers.append({"id": r.choice([0, 1, 2, "x", "y"]) if r.chance(0.5) else w, "items": items})
        ids = [w["id"] for w in workers]
        if any(isinstance(i, str) for i in ids):
            for w in workers:
                w["id"] = str(w["id"])
        p["workers"] = workers
        p["perm_seed"] = int(r.u64() % 1000)
        # the cache everything is merged into: a plain map, or one of the engine's recency-ordered containers, possibly holding
        # entries already (conflicts with the workers' keys included)
        p["target"] = r.choice(["plain", "lrucache", "threadsafe", "detlru"])
        p["target_pre"] = [[r.choice(KEYS), next(val)] for _ in range(r.randint(0, 2))]
        p["on_conflict"] = "first_wins"
        return p
    ops = []
    for _ in range(r.randint(5, 30)):
        x = r.random()
        if x < 0.4:
            ops.append({"op": "put", "k": r.choice(KEYS), "v": next(val), "c": r.choice(COSTS + [9])})
        elif x < 0.7:
            ops.append({"op": "get", "k": r.choice(KEYS)})
        elif x < 0.8:
            ops.append({"op": "contains", "k": r.choice(KEYS)})
        elif x < 0.9:
            ops.append({"op": "clock", "ms": r.choice([500, 1000, 1001, 2000, 3500, -1500] + ([599_000, 601_000, 86_400_000, 10**12] if long_jumps else []))})
        elif x < 0.95:
            ops.append({"op": "discard" if kind == "ring" else "items", "k": r.choice(KEYS)})
        else:
            ops.append({"op": "invalidate" if kind in ("nscache", "lrucache", "manager") else "pop_lru"})
    p["ops"] = ops
    return p


# ---------------------------------------------------------------------------
# reference models
# ---------------------------------------------------------------------------

class MBytes:
    def __init__(self, me: int, mb: int):
        self.me, self.mb, self.d = me, mb, OrderedDict()

    def enabled(self):
        return not (self.me == 0 and self.mb == 0)

    def get(self, k):
        if k not in self.d:
            return None
        self.d.move_to_end(k)
        return self.d[k][0]

    def put(self, k, v, c):
        if not self.enabled():
            return (0, 0)
        c = max(0, int(c))
        if self.mb and c > self.mb:
            return (0, 0)
        self.d.pop(k, None)
        self.d[k] = (v, c)
        n = b = 0
        while (self.me and len(self.d) > self.me) or (self.mb and sum(x[1] for x in self.d.values()) > self.mb):
            _k0, (_v0, c0) = self.d.popitem(last=False)
            n += 1
            b += c0
        return (n, b)

    def contains(self, k):
        return k in self.d and self.enabled()

    def order(self):
        return list(self.d)

    def bytes(self):
        return sum(x[1] for x in self.d.values())


class MTtl:
    def __init__(self, mx: int, ttl: int, clock):
        self.mx, self.ttl, self.clock, self.d = mx, ttl, clock, OrderedDict()
        self.evicted = 0

    def get(self, k):
        now = self.clock()
        if k not in self.d:
            return (False, None)
        ts, v = self.d[k]
        if self.ttl and (now - ts) > self.ttl:
            del self.d[k]
            return (False, None)
        self.d.move_to_end(k)
        return (True, v)

    def set(self, k, v):
        self.d[k] = (self.clock(), v)
        self.d.move_to_end(k)
        n = 0
        while len(self.d) > self.mx:
            self.d.popitem(last=False)
            n += 1
        self.evicted += n
        return n

    def contains(self, k):
        now = self.clock()
        if k not in self.d:
            return False
        ts, _v = self.d[k]
        if self.ttl and (now - ts) > self.ttl:
            del self.d[k]
            return False
        return True

    def invalidate(self):
        n = len(self.d)
        self.d.clear()
        return n

    def items(self):
        now = self.clock()
        for k in [k for k, (ts, _v) in self.d.items() if self.ttl and (now - ts) > self.ttl]:
            del self.d[k]
        return [(k, v) for k, (_ts, v) in self.d.items()]


class MDetLRU:
    def __init__(self, cap, ug, up):
        self.cap, self.ug, self.up, self.d = cap, ug, up, OrderedDict()

    def get(self, k):
        if self.cap == 0 or k not in self.d:
            return None
        if self.ug:
            self.d.move_to_end(k)
        return self.d[k]

    def put(self, k, v):
        if self.cap == 0:
            return None
        if k in self.d:
            self.d[k] = v
            if self.up:
                self.d.move_to_end(k)
            return None
        self.d[k] = v
        ev = None
        while len(self.d) > self.cap:
            ev = self.d.popitem(last=False)
        return ev

    def pop_lru(self):
        if self.cap == 0 or not self.d:
            return None
        return self.d.popitem(last=False)


class MFifoSet:
    def __init__(self, cap):
        self.cap, self.d = cap, OrderedDict()

    def add(self, x):
        if self.cap == 0 or x in self.d:
            return False
        self.d[x] = None
        ev = False
        while len(self.d) > self.cap:
            self.d.popitem(last=False)
            ev = True
        return ev

    def contains(self, x):
        return self.cap > 0 and x in self.d


# ---------------------------------------------------------------------------

def _seq(p: Dict[str, Any], stats: Dict[str, int]) -> List[Dict[str, Any]]:
    kind = p["kind"]
    viol: List[Dict[str, Any]] = []
    clock = SimClock(None, "stall")  # time moves only through explicit clock ops
    now = lambda: clock.wall_ns / 1e9  # noqa: E731
    me, mb, ttl = int(p["max_entries"]), int(p["max_bytes"]), int(p["ttl"])

    def bad(inv: str, detail: str) -> None:
        viol.append({"cls": "sequential", "sig": "%s:%s" % (kind, inv), "detail": detail})

    if kind == "lrubytes":
        real: Any = LRUBytes(me, mb)
        model: Any = MBytes(me, mb)
    elif kind == "nscache":
        real = _NamespaceCache(me, ttl, now)
        model = MTtl(me, ttl, now)
    elif kind == "lrucache":
        real = LRUCache(**{p.get("cap_alias", "max_entries"): me, p.get("ttl_alias", "ttl_s"): ttl, "time_fn": now})
        model = MTtl(me, ttl, now)
    elif kind == "manager":
        real = CacheManager(max_entries=me, ttl_sec=ttl, time_fn=now)
        model = MTtl(me, ttl, now)
    elif kind == "detlru":
        real = DeterministicLRU(me, update_on_get=p["flags"][0], update_on_put=p["flags"][1])
        model = MDetLRU(me, p["flags"][0], p["flags"][1])
    elif kind == "detset":
        real, model = DeterministicLRUSet(me), MFifoSet(me)
    elif kind == "ringlru":
        real, model = RingLRU(me), MFifoSet(me)
    else:
        real, model = DedupeRing(me), None
    hits = misses = 0
    slots: List[List[Any]] = []
    for i, op in enumerate(p["ops"]):
        o = op["op"]
        stats["evaluations"] = stats.get("evaluations", 0) + 1
        ctx = "op#%d %s (max_entries=%d max_bytes=%d ttl=%d)" % (i, op, me, mb, ttl)
        if o == "clock":
            clock.advance(int(op["ms"]) * 1_000_000)
            stats["clock_ops"] = stats.get("clock_ops", 0) + 1
            continue
        if kind == "lrubytes":
            if o == "put":
                a, b = real.put(op["k"], op["v"], op["c"]), model.put(op["k"], op["v"], op["c"])
                if tuple(a) != tuple(b):
                    bad("eviction-report", "put returned %s, model %s; %s" % (a, b, ctx))
                if a[0]:
                    stats["evictions"] = stats.get("evictions", 0) + int(a[0])
            elif o == "get":
                a, b = real.get(op["k"]), model.get(op["k"])
                if a != b:
                    bad("get-value", "get returned %r, model %r; %s" % (a, b, ctx))
            elif o == "contains":
                if bool(op["k"] in real) != bool(model.contains(op["k"])):
                    bad("contains", ctx)
            if me and len(real) > me:
                bad("entry-cap", "len %d > %d; %s" % (len(real), me, ctx))
            if mb and real.size_bytes() > mb:
                bad("byte-cap", "bytes %d > %d; %s" % (real.size_bytes(), mb, ctx))
            if real.size_bytes() != sum(c for (_v, c) in real._map.values()) or real.size_bytes() != model.bytes():
                bad("byte-accounting", "size_bytes %d, sum of costs %d, model %d; %s" % (
                    real.size_bytes(), sum(c for (_v, c) in real._map.values()), model.bytes(), ctx))
            if list(real.keys()) != model.order():
                bad("lru-order", "order %s, model %s; %s" % (list(real.keys()), model.order(), ctx))
            if me == 0 and mb == 0 and len(real):
                bad("disabled", "cache with zero capacities holds entries; %s" % ctx)
        elif kind in ("nscache", "lrucache", "manager"):
            def rget(k):
                if kind == "nscache":
                    return real.get(k)
                if kind == "lrucache":
                    return real.get2(k)
                return real.get("ns", k)

            def rset(k, v):
                if kind == "nscache":
                    return real.set(k, v)
                if kind == "lrucache":
                    return real.set(k, v)
                return real.set("ns", k, v)
            if o == "put":
                rset(op["k"], op["v"])
                n = model.set(op["k"], op["v"])
                stats["evictions"] = stats.get("evictions", 0) + n
            elif o == "get":
                a, b = rget(op["k"]), model.get(op["k"])
                if tuple(a) != tuple(b):
                    bad("get-value", "get returned %s, model %s; %s" % (a, b, ctx))
                if b[0]:
                    hits += 1
                else:
                    misses += 1
                    if op["k"] in [x.get("k") for x in p["ops"][:i] if x["op"] == "put"]:
                        stats["misses_after_put"] = stats.get("misses_after_put", 0) + 1
            elif o == "contains" and kind == "lrucache":
                if bool(op["k"] in real) != model.contains(op["k"]):
                    bad("contains", ctx)
            elif o == "items" and kind == "lrucache":
                a, b = list(real.items()), model.items()
                if a != b:
                    bad("items", "items() %s, model %s; %s" % (a, b, ctx))
            elif o == "invalidate":
                a = real.invalidate() if kind != "manager" else real.invalidate_namespace("ns")
                b = model.invalidate()
                if a != b:
                    bad("invalidate-count", "%s vs %s; %s" % (a, b, ctx))
            inner = real if kind == "nscache" else (real._ns if kind == "lrucache" else real._ns.get("ns"))
            size = inner.size() if inner is not None else 0
            if size > me:
                bad("entry-cap", "size %d > %d; %s" % (size, me, ctx))
            order = list(inner._d.keys()) if inner is not None else []
            if order != list(model.d.keys()):
                bad("lru-order", "order %s, model %s; %s" % (order, list(model.d.keys()), ctx))
            if kind in ("lrucache", "manager"):
                st = real.stats
                if (st["hits"], st["misses"], st["evicted"], st["size"]) != (hits, misses, model.evicted, len(model.d)):
                    bad("stats", "stats %s, model hits=%d misses=%d evicted=%d size=%d; %s" % (st, hits, misses, model.evicted, len(model.d), ctx))
        elif kind == "detlru":
            if o == "put":
                a, b = real.put(op["k"], op["v"]), model.put(op["k"], op["v"])
                if (a is None) != (b is None) or (a is not None and tuple(a) != tuple(b)):
                    bad("eviction-report", "put returned %s, model %s; %s" % (a, b, ctx))
                if a is not None:
                    stats["evictions"] = stats.get("evictions", 0) + 1
            elif o == "get":
                a, b = real.get(op["k"]), model.get(op["k"])
                if a != b:
                    bad("get-value", "%r vs %r; %s" % (a, b, ctx))
            elif o == "pop_lru":
                a, b = real.pop_lru(), model.pop_lru()
                if (a is None) != (b is None) or (a is not None and tuple(a) != tuple(b)):
                    bad("pop-lru", "%s vs %s; %s" % (a, b, ctx))
            elif o == "contains":
                if bool(op["k"] in real) != (me > 0 and op["k"] in model.d):
                    bad("contains", ctx)
            if len(real._map) > me:
                bad("entry-cap", "len %d > %d; %s" % (len(real._map), me, ctx))
            if [k for k, _ in real.items()] != (list(model.d) if me else []):
                bad("lru-order", "order %s, model %s; %s" % ([k for k, _ in real.items()], list(model.d), ctx))
        elif kind in ("detset", "ringlru"):
            if o == "put":
                a, b = real.add(op["k"]), model.add(op["k"])
                if bool(a) != bool(b):
                    bad("eviction-report", "add returned %s, model %s; %s" % (a, b, ctx))
                if a:
                    stats["evictions"] = stats.get("evictions", 0) + 1
            elif o in ("get", "contains"):
                if bool(real.contains(op["k"])) != bool(model.contains(op["k"])):
                    bad("contains", ctx)
            if len(real) > me:
                bad("entry-cap", "len %d > %d; %s" % (len(real), me, ctx))
            if list(real._q) != list(model.d) and me:
                bad("fifo-order", "order %s, model %s; %s" % (list(real._q), list(model.d), ctx))
        else:  # DedupeRing: a window of the last `me` pushes; discard() retires ONE live occurrence (its slot stays until evicted)
            if o == "put":
                if me and len(slots) >= me:
                    stats["evictions"] = stats.get("evictions", 0) + 1
                real.add(op["k"])
                if me:
                    slots.append([op["k"], True])
                    del slots[:-me]
            elif o == "discard":
                real.discard(op["k"])
                for s in slots:
                    if s[0] == op["k"] and s[1]:
                        s[1] = False
                        break
                stats["ring_discards"] = stats.get("ring_discards", 0) + 1
            elif o in ("get", "contains"):
                c = bool(real.contains(op["k"]))
                want = any(s[0] == op["k"] and s[1] for s in slots)
                if c and op["k"] not in real.tolist():
                    bad("phantom-member", "contains(%r) is true but the ring holds %s; %s" % (op["k"], real.tolist(), ctx))
                if c != want:
                    bad("membership", "contains(%r)=%s, window (value, live) %s; %s" % (op["k"], c, slots, ctx))
            if len(real) > me:
                bad("entry-cap", "len %d > %d; %s" % (len(real), me, ctx))
            if me == 0 and (len(real) or real.contains(op.get("k", "a"))):
                bad("disabled", ctx)
            if real.tolist() != [s[0] for s in slots]:
                bad("ring-order", "ring %s, window %s; %s" % (real.tolist(), [s[0] for s in slots], ctx))
            for key in KEYS:
                if bool(real.contains(key)) != any(s[0] == key and s[1] for s in slots):
                    bad("membership", "contains(%r)=%s, window (value, live) %s; %s" % (key, real.contains(key), slots, ctx))
                    break
        if viol:
            break
    return viol


# ---------------------------------------------------------------------------
# threaded mode
# ---------------------------------------------------------------------------

def _linearizable(history: List[Dict[str, Any]], mk_model, apply) -> bool:
    """history: ops with inv/ret sequence numbers and observed result. Exhaustive search with pruning."""
    n = len(history)
    done = [False] * n

    def rec(model, count) -> bool:
        if count == n:
            return True
        # minimal return among not-yet-linearized ops
        min_ret = min(h["ret"] for i, h in enumerate(history) if not done[i])
        for i, h in enumerate(history):
            if done[i] or h["inv"] > min_ret:
                continue
            m2 = mk_model(model)
            if apply(m2, h) == h["res"]:
                done[i] = True
                if rec(m2, count + 1):
                    return True
                done[i] = False
        return False

    return rec(mk_model(None), 0)


def _threads(p: Dict[str, Any], stats: Dict[str, int]) -> Tuple[List[Dict[str, Any]], str]:
    kind = p["kind"]
    viol: List[Dict[str, Any]] = []
    me, mb = int(p["max_entries"]), int(p["max_bytes"])
    bytes_mode = kind == "threads_bytes"
    sched = Sched(Rng(int(p["sched_seed"])).stream("sched"), step_cap=200_000,
                  trace_files=("lru_bytes.py", "engine/cache.py", "lru_det.py", "ring.py"))
    seq = itertools.count(1)
    history: List[Dict[str, Any]] = []
    with sched:
        lock = SimRLock(sched)
        if bytes_mode:
            inner: Any = LRUBytes(me, mb)
            cache: Any = ThreadSafeBytesCache(inner, lock=lock)
        else:
            tnow = [0.0]
            tttl = int(p.get("ttl", 0))
            inner = LRUCache(max_entries=me, ttl_s=tttl, time_fn=lambda: tnow[0])
            cache = ThreadSafeCache(inner, lock=lock)

        def worker(ops, tid):
            def run():
                for op in ops:
                    h = {"t": tid, "op": op["op"], "k": op["k"], "v": op.get("v"), "c": op.get("c"), "ms": op.get("ms"), "inv": next(seq)}
                    if op["op"] == "put":
                        r = cache.put(op["k"], op["v"], op["c"]) if bytes_mode else cache.put(op["k"], op["v"])
                        h["res"] = tuple(r) if bytes_mode else None
                    elif op["op"] == "contains":
                        h["res"] = bool(op["k"] in cache)
                    elif op["op"] == "clock":
                        tnow[0] += float(op["ms"]) / 1000.0   # the injected clock moves between (not inside) cache operations
                        h["res"] = None
                    elif op["op"] == "items":
                        snap = cache.items()
                        sched.yield_point("items.returned")  # whatever came back is consumed later, as callers do
                        h["res"] = tuple((k, v) for k, v in snap)
                    else:
                        h["res"] = cache.get(op["k"])
                    h["ret"] = next(seq)
                    history.append(h)
            return run

        ts = [sched.spawn(worker(ops, i), "c%d" % i) for i, ops in enumerate(p["threads"])]
        try:
            sched.run_all()
        except Exception as e:  # noqa: BLE001
            viol.append({"cls": "threads", "sig": "%s:scheduler:%s" % (kind, type(e).__name__), "detail": str(e)[:200]})
        for t in ts:
            if t.exc is not None:
                viol.append({"cls": "threads", "sig": "%s:raised:%s" % (kind, type(t.exc).__name__),
                             "detail": "thread %s raised %r" % (t.name, t.exc)})
    stats["evaluations"] = stats.get("evaluations", 0) + len(history)
    stats["sched_steps"] = stats.get("sched_steps", 0) + sched.steps
    stats["lock_acquisitions"] = stats.get("lock_acquisitions", 0) + lock.acquisitions
    stats["line_preemptions"] = stats.get("line_preemptions", 0) + sched.labels.get("line", 0)
    if viol:
        return viol, sched.digest()
    # internal consistency at quiescence
    if bytes_mode:
        if inner.size_bytes() != sum(c for (_v, c) in inner._map.values()):
            viol.append({"cls": "threads", "sig": "%s:byte-accounting" % kind, "detail": "size_bytes %d != sum %d" % (
                inner.size_bytes(), sum(c for (_v, c) in inner._map.values()))})
        if sorted(inner._q) != sorted(inner._map) or len(set(inner._q)) != len(inner._q):
            viol.append({"cls": "threads", "sig": "%s:deque-map-mismatch" % kind, "detail": "deque %s map %s" % (list(inner._q), list(inner._map))})
        if (me and len(inner) > me) or (mb and inner.size_bytes() > mb):
            viol.append({"cls": "threads", "sig": "%s:cap" % kind, "detail": "len %d bytes %d" % (len(inner), inner.size_bytes())})

        def mk(m):
            if m is None:
                return MBytes(me, mb)
            n = MBytes(me, mb)
            n.d = OrderedDict(m.d)
            return n

        def ap(m, h):
            if h["op"] == "put":
                return tuple(m.put(h["k"], h["v"], h["c"]))
            if h["op"] == "items":
                return tuple((k, vc[0]) for k, vc in m.d.items())
            if h["op"] == "contains":
                return bool(m.contains(h["k"]))
            return m.get(h["k"])
    else:
        if inner.size() > me:
            viol.append({"cls": "threads", "sig": "%s:cap" % kind, "detail": "size %d > %d" % (inner.size(), me)})

        def mk(m):
            box = [0.0 if m is None else m.box[0]]
            n = MTtl(me, tttl, lambda: box[0])
            n.box = box
            if m is not None:
                n.d = OrderedDict(m.d)
            return n

        def ap(m, h):
            if h["op"] == "put":
                m.set(h["k"], h["v"])
                return None
            if h["op"] == "clock":
                m.box[0] += float(h["ms"]) / 1000.0
                return None
            if h["op"] == "contains":
                return bool(m.contains(h["k"]))
            if h["op"] == "items":
                return tuple(m.items())
            hit, v = m.get(h["k"])
            return v if hit else None
    if not viol and not _linearizable(history, mk, ap):
        viol.append({"cls": "threads", "sig": "%s:not-linearizable" % kind,
                     "detail": "history %s has no linearization against the sequential model" % (
                         [(h["t"], h["op"], h["k"], h.get("v"), h["res"], h["inv"], h["ret"]) for h in sorted(history, key=lambda x: x["inv"])],)})
    return viol, sched.digest()


class _Plain:
    def __init__(self):
        self.d = OrderedDict()

    def get(self, k):
        return self.d.get(k)

    def put(self, k, v):
        self.d[k] = v

    def __contains__(self, k):
        return k in self.d

    def items(self):
        return list(self.d.items())


def _merge(p: Dict[str, Any], stats: Dict[str, int]) -> List[Dict[str, Any]]:
    viol = []
    outs = []
    perms = [list(p["workers"])]
    r = Rng(int(p["perm_seed"])).stream("perm")
    for _ in range(3):
        w = list(p["workers"])
        r.shuffle(w)
        perms.append(w)
    ids = [w["id"] for w in p["workers"]]
    dup_ids = len(set(ids)) != len(ids)
    kind = p.get("target", "plain")

    def mk_target():
        if kind == "lrucache":
            return LRUCache(max_entries=64, ttl_s=0)
        if kind == "threadsafe":
            return ThreadSafeCache(LRUCache(max_entries=64, ttl_s=0))
        if kind == "detlru":
            return DeterministicLRU(64)
        return _Plain()

    def items_of(t):
        return [(k, v) for k, v in t.items()]

    for ws in perms:
        stats["evaluations"] = stats.get("evaluations", 0) + 1
        target = mk_target()
        for k, v in p.get("target_pre") or []:
            target.put(k, v)
        before = items_of(target)
        wc = []
        for w in ws:
            c = _Plain()
            for k, v in w["items"]:
                c.put(k, v)
            wc.append((w["id"], c))
        merge_caches_deterministic(target, wc, worker_order_key=lambda x: x, key_order_key=lambda k: k, on_conflict=p["on_conflict"])
        outs.append(items_of(target))
        if not dup_ids and p["on_conflict"] == "first_wins":
            # reference: entries already in the target stay where and what they are; new keys are appended worker by worker (sorted
            # worker key), key by key (sorted key), the first value offered for a key wins - a cached None included
            want = list(before)
            have = {k for k, _ in want}
            for w in sorted(ws, key=lambda w: w["id"]):
                last: Dict[Any, Any] = {}
                for k, v in w["items"]:
                    last[k] = v
                for k in sorted(last):
                    if k not in have:
                        have.add(k)
                        want.append((k, last[k]))
            if outs[-1] != want:
                viol.append({"cls": "merge", "sig": "merge:not-the-documented-merge:%s" % kind,
                             "detail": "target(%s) pre %s, workers %s: merged %s, documented order/values %s" % (kind, before, [(w["id"], w["items"]) for w in ws], outs[-1], want)})
                break
    stats["merge_dup_worker_ids"] = stats.get("merge_dup_worker_ids", 0) + int(dup_ids)
    if not dup_ids and any(o != outs[0] for o in outs[1:]):
        viol.append({"cls": "merge", "sig": "merge:order-dependent", "detail": "merged caches differ across worker list orders: %s" % (outs,)})
    return viol


def execute(p: Dict[str, Any]) -> Dict[str, Any]:
    stats: Dict[str, int] = {"kind_" + p["kind"]: 1}
    sched_d = None
    if p["kind"].startswith("threads"):
        viol, sched_d = _threads(p, stats)
        nontrivial = len(p["threads"]) > 1
    elif p["kind"] == "merge":
        viol = _merge(p, stats)
        nontrivial = len(p["workers"]) > 1
    else:
        viol = _seq(p, stats)
        nontrivial = bool(stats.get("evictions") or stats.get("misses_after_put"))
    faults = {"clock_advance": stats.get("clock_ops", 0), "line_preemption": stats.get("line_preemptions", 0)}
    return {"violations": viol, "stats": stats, "faults": faults, "nontrivial": nontrivial, "key": E.jdigest([p, sched_d]),
            "sched": sched_d, "sim_s": 0.0, "log": E.jdigest([viol, sched_d])}
