"""C08 - durable files are replaced all-or-nothing (fault enumeration).

One run = one (caller, old content, new content) triple.  The write is first
executed fault-free under the I/O interposer to learn its event sequence and the
complete new content; then EVERY event is used as a kill point and as a failing
call (errno set x persistent/transient, short writes), with a concurrent reader
after every event and all power-loss states of the shadow disk model checked.
"""
from __future__ import annotations

import json
import os
import re
import types
from typing import Any, Dict, List, Optional, Tuple

from vsim import use_repo

use_repo()

from vsim.clock import SimClock, SimTime  # noqa: E402
from vsim.fs import FaultPlan, SimCrash, SimFS, materialise, _REAL  # noqa: E402
from vsim.rng import Rng  # noqa: E402
from vsim.scratch import Scratch  # noqa: E402

import clematis.io.atomic as atomic  # noqa: E402
import clematis.io.log as iolog  # noqa: E402
import clematis.engine.snapshot as snapshot  # noqa: E402

PROPERTY = "C08"
LEVEL = "fault_enumeration"
RUNS = {"quick": 800, "thorough": 16000}
EXHAUSTIVE = False
RULE = ("one run = one (caller, old content, new content, file mode) triple drawn from the seed; inside a run EVERY "
        "intercepted I/O event of the write is enumerated as (a) kill point, with all power-loss states of the shadow "
        "disk model, and (b) failing call x {EIO, ENOSPC, EACCES, EBUSY, EPERM, PermissionError} x {persistent, "
        "transient x1, x5, x79, x80}, short writes at 4 cut points, plus seeded double faults on the clean-up path; a "
        "concurrent reader runs after every event.  evaluations = fault cases executed; a case is non-trivial when its "
        "fault actually fired; distinct = distinct (caller, old kind, new kind, event op, fault kind)")
REAL = ["clematis/io/atomic.py (all of it)", "clematis/engine/snapshot.py:write_snapshot,_write_lines,_write_sidecar_meta,"
        "_pick_latest_snapshot_path", "clematis/io/log.py:rewrite_jsonl", "CPython io/tempfile/pathlib above the syscall layer"]
STUBS = ["os.open/write/fsync/chmod/replace/unlink/mkdir/stat under the scratch root (interposed; real calls on tmpfs "
         "unless a fault fires)", "time.sleep/random.uniform of the retry back-off (simulated clock)",
         "power-loss model: ordered-mode POSIX shadow file system"]
ASSUMPTIONS = [
    "old content is durable before the write starts",
    "power-loss states follow an ordered-mode POSIX model: fsynced data survives, un-synced data survives as any prefix, "
    "directory operations survive in order only up to the last directory fsync",
    "a reader opens and reads the destination between two system calls of the writer (system-call granularity)",
    "zstandard is not installed: the compressed branch of _write_lines is not exercised",
]
SHRINK_FIELDS = ["faults"]

ERR_KINDS = ["EIO", "ENOSPC", "EACCES", "EBUSY", "EPERM"]
CALLERS = ["bytes", "text", "json", "snapshot", "lines", "rewrite", "replace", "sidecar", "export"]
_MISTAKABLE = re.compile(r"(\.json|\.jsonl|\.meta|\.jsonl\.\d+|\.json\.zst)$")


import functools


@functools.lru_cache(maxsize=64)
def _content(kind: str, seed: int, text: bool) -> Optional[bytes]:
    r = Rng(seed).stream("content")
    if kind == "absent":
        return None
    if kind == "empty":
        return b""
    n = {"small": r.randint(1, 40), "medium": r.randint(500, 4000), "big": 65536 + r.randint(0, 9)}[kind]
    if text:
        alphabet = ["a", "b", "z", " ", "\n", "\r\n", "é", "→", "日", "{", "}", '"', "0"]
        out = []
        size = 0
        while size < n:
            c = r.choice(alphabet)
            out.append(c)
            size += len(c.encode("utf-8"))
        return "".join(out).encode("utf-8")
    return r.bytes(n)


def generate(seed: int, tier: str) -> Dict[str, Any]:
    r = Rng(seed).stream("gen")
    caller = r.choice(CALLERS)
    kinds_old = ["absent", "empty", "small", "medium", "big"]
    kinds_new = ["empty", "small", "medium", "big"]
    return {
        "caller": caller,
        "old": r.weighted([(k, w) for k, w in zip(kinds_old, [2, 1, 3, 2, 1])]),
        "new": r.weighted([(k, w) for k, w in zip(kinds_new, [1, 3, 2, 1])]),
        "old_meta": r.choice(["absent", "small"]),
        "mode": r.choice([0o644, 0o600, 0o444, 0o664]),
        "cseed": int(r.u64() % (1 << 31)),
        "agent": r.choice(["a", "Ambrose", "agent.1", "ü"]),
        "double_faults": r.randint(2, 6),
        "faults": "ALL",
    }


# ---------------------------------------------------------------------------

class _Store:
    def __init__(self, w: Dict[Tuple[str, str, str], float]):
        self.w = w


def _setup(prog: Dict[str, Any], root: str) -> Dict[str, Any]:
    """Return {'dests': [rel...], 'old': {rel: bytes|None}, 'call': fn, 'primary': rel}."""
    caller = prog["caller"]
    cs = int(prog["cseed"])
    textual = caller in ("text", "json", "rewrite", "snapshot", "lines", "sidecar", "export")
    old = _content(prog["old"], cs, textual)
    new = _content(prog["new"], cs + 1, textual) or b""
    snap = os.path.join(root, "snap")
    r = Rng(cs).stream("payload")
    dests: List[str]
    olds: Dict[str, Optional[bytes]] = {}
    others: Dict[str, bytes] = {}
    if caller == "bytes":
        dests = ["snap/state_%s.json" % prog["agent"]]
        call = lambda: atomic.atomic_write_bytes(os.path.join(root, dests[0]), new)  # noqa: E731
    elif caller == "text":
        dests = ["snap/state_%s.json" % prog["agent"]]
        txt = new.decode("utf-8")
        call = lambda: atomic.atomic_write_text(os.path.join(root, dests[0]), txt)  # noqa: E731
    elif caller == "json":
        dests = ["snap/export.json"]
        obj = {"k%d" % i: [r.randint(0, 9), new.decode("utf-8")[: r.randint(0, 50)]] for i in range(r.randint(0, 5))}
        call = lambda: atomic.atomic_write_json(os.path.join(root, dests[0]), obj)  # noqa: E731
    elif caller == "export":
        # the JSON exporter the operator tools use (console.write_json; export_logs_for_frontend writes its bundle the same way)
        import clematis.scripts.console as console
        dests = ["snap/export.json"]
        obj2 = {"k%d" % i: [r.randint(0, 9), new.decode("utf-8")[: r.randint(0, 50)]] for i in range(r.randint(1, 6))}
        call = lambda: console.write_json(os.path.join(root, dests[0]), obj2)  # noqa: E731
    elif caller == "snapshot":
        dests = ["snap/state_%s.json" % prog["agent"], "snap/state_%s.json.meta" % prog["agent"]]
        w = {("node", "n%d" % i, "weight"): r.uniform(-1, 1) for i in range(r.randint(0, 6))}
        state = {"store": _Store(w), "graph": {"nodes": {"x": {"id": "x"}}, "edges": {}, "meta": {}}}
        cfg = {"t4": {"snapshot_dir": snap, "snapshot_every_n_turns": 1}}
        ctx = types.SimpleNamespace(agent_id=prog["agent"], turn_id=r.randint(0, 9), cfg=cfg, config=cfg)
        ver = str(r.randint(0, 99))
        call = lambda: snapshot.write_snapshot(ctx, state, ver, applied=1, deltas=[])  # noqa: E731
    elif caller == "lines":
        etag = "e%d" % r.randint(0, 99)
        dests = ["snap/snapshot-%s.full.json" % etag, "snap/snapshot-%s.full.json.meta" % etag]
        header = {"schema": "snapshot:v1", "mode": "full", "etag_to": etag, "codec": "none", "level": 0}
        body = json.dumps({"payload": new.decode("utf-8")[:2000]})
        call = lambda: snapshot._write_lines(os.path.join(root, dests[0]), header, body, codec="none", level=0)  # noqa: E731
    elif caller == "sidecar":
        dests = ["snap/state_%s.json.meta" % prog["agent"]]
        others["snap/state_%s.json" % prog["agent"]] = b'{"schema_version":"v1","version_etag":"3"}'
        call = lambda: snapshot._write_sidecar_meta(os.path.join(root, "snap/state_%s.json" % prog["agent"]),  # noqa: E731
                                                    schema_version="v1")
    elif caller == "rewrite":
        dests = ["logs/t1.jsonl"]
        recs = [{"turn": i, "agent": prog["agent"], "ms": r.uniform(0, 9), "text": new.decode("utf-8")[: r.randint(0, 80)]}
                for i in range(r.randint(0, 6))]
        call = lambda: iolog.rewrite_jsonl("t1.jsonl", recs)  # noqa: E731
    elif caller == "replace":
        dests = ["logs/turn.jsonl.2"]
        others["logs/turn.jsonl.1"] = new
        from pathlib import Path
        call = lambda: atomic.atomic_replace(Path(os.path.join(root, "logs/turn.jsonl.1")),  # noqa: E731
                                             Path(os.path.join(root, dests[0])))
    else:
        raise ValueError(caller)
    # a second, independent writer of the same destination (another run of the same tool): other content, same call
    call2 = None
    new2: Optional[bytes] = None
    if caller in ("bytes", "text", "json", "export"):
        alt = (_content("medium", cs + 7, textual) or b"") + b"-second-writer"
        d0 = os.path.join(root, dests[0])
        if caller == "bytes":
            call2, new2 = (lambda: atomic.atomic_write_bytes(d0, alt)), alt
        elif caller == "text":
            call2, new2 = (lambda: atomic.atomic_write_text(d0, alt.decode("utf-8"))), alt.decode("utf-8").replace("\r\n", "\n").encode("utf-8")
        else:
            obj_b = {"second": [7, alt.decode("utf-8")[:400]], "writer": "B"}
            if caller == "json":
                call2 = lambda: atomic.atomic_write_json(d0, obj_b)  # noqa: E731
            else:
                import clematis.scripts.console as console2
                call2 = lambda: console2.write_json(d0, obj_b)  # noqa: E731
    olds[dests[0]] = old
    if len(dests) > 1:
        olds[dests[1]] = _content(prog.get("old_meta", "absent"), cs + 2, True)
    for rel, data in list(olds.items()) + list(others.items()):
        if data is None:
            continue
        p = os.path.join(root, rel)
        with _REAL["open"](p, "wb") as fh:
            fh.write(data)
        os.chmod(p, int(prog["mode"]))
    return {"dests": dests, "old": olds, "call": call, "others": set(others), "consumes": set(others) if caller == "replace" else set(),
            "call2": call2, "new2": new2}


def _run_case(prog: Dict[str, Any], faults: List[Dict[str, Any]], new: Optional[Dict[str, Optional[bytes]]],
              stats: Dict[str, int]) -> Dict[str, Any]:
    """Execute the write once under `faults`.  Returns trace + observations + violations."""
    viol: List[Dict[str, Any]] = []
    saved_env = {k: os.environ.get(k) for k in ("CLEMATIS_LOG_DIR", "CLEMATIS_SNAPSHOT_DIR", "SOURCE_DATE_EPOCH")}
    saved_time = (atomic.time, snapshot.time)
    with Scratch("snap", "logs") as root:
        os.environ["CLEMATIS_LOG_DIR"] = os.path.join(root, "logs")
        os.environ["CLEMATIS_SNAPSHOT_DIR"] = os.path.join(root, "snap")
        os.environ["SOURCE_DATE_EPOCH"] = "1700000000"
        rng = Rng(int(prog["cseed"]))
        clock = SimClock(rng.stream("clock"), "steady")
        atomic.time = SimTime(clock)
        snapshot.time = atomic.time
        setup = _setup(prog, root)
        dests, olds = setup["dests"], setup["old"]
        second_at = [int(f["k"]) for f in faults if f.get("kind") == "second_writer"]
        faults = [f for f in faults if f.get("kind") != "second_writer"]
        second: Dict[str, Any] = {"content": None, "exc": None, "ran": False}
        plan = FaultPlan(faults)
        fs = SimFS(root, names=rng.stream("tmpnames"), jitter=rng.stream("jitter"), plan=plan, clock=clock, trace_stat=True)
        partial: List[Tuple[int, str, str, int]] = []

        def allowed(rel: str, data: Optional[bytes]) -> bool:
            if data == olds.get(rel):
                return True
            if second["ran"] and rel == dests[0] and data == second["content"]:
                return True   # the other writer's complete document
            return new is not None and data == new.get(rel)

        def reader(k: int, op: str, rel_ev: str) -> None:
            stats["reader_checks"] = stats.get("reader_checks", 0) + 1
            if new is None:
                return
            if second_at and k == second_at[0] and not second["ran"] and setup.get("call2") is not None:
                # the second writer runs from start to end between two I/O steps of the first (its I/O is the harness's own)
                second["ran"] = True
                stats["second_writer_runs"] = stats.get("second_writer_runs", 0) + 1
                try:
                    setup["call2"]()
                except Exception as e:  # noqa: BLE001
                    second["exc"] = "%s(%s)" % (type(e).__name__, getattr(e, "errno", ""))
                try:
                    with _REAL["open"](os.path.join(root, dests[0]), "rb") as fh:
                        second["content"] = fh.read()
                except OSError:
                    second["content"] = None
            for rel in dests:
                data = fs.read(rel)
                if not allowed(rel, data):
                    partial.append((k, op, rel, -1 if data is None else len(data)))

        fs.after_event = reader
        outcome = "returned"
        exc_repr = ""
        try:
            with fs:
                try:
                    setup["call"]()
                except SimCrash:
                    outcome = "crashed"
                except Exception as e:  # the write reported failure
                    outcome = "raised"
                    exc_repr = "%s(%s)" % (type(e).__name__, getattr(e, "errno", ""))
        finally:
            atomic.time, snapshot.time = saved_time
            for k, v in saved_env.items():
                if v is None:
                    os.environ.pop(k, None)
                else:
                    os.environ[k] = v
        if fs.escaped or fs.unmodelled:
            raise RuntimeError("unintercepted I/O: %r %r" % (fs.escaped[:3], fs.unmodelled[:3]))

        final = {rel: fs.read(rel) for rel in dests}
        legit = set(dests) | set(setup["others"])

        def leftover_check(names_by_dir: Dict[str, List[str]], where: str) -> None:
            for d, names in names_by_dir.items():
                for n in names:
                    rel = "%s/%s" % (d, n)
                    if rel in legit:
                        continue
                    stats["leftovers_seen"] = stats.get("leftovers_seen", 0) + 1
                    if _MISTAKABLE.search(n):
                        viol.append({"clause": "leftover-mistaken", "detail": "%s: leftover %r has a name readers accept" % (where, rel)})

        if second["ran"]:
            if second["exc"]:
                viol.append({"clause": "second-writer-raised", "detail": "a second writer of %s, run between two I/O steps of the first, raised %s" % (dests[0], second["exc"])})
            if outcome == "raised":
                viol.append({"clause": "first-writer-raised", "detail": "the first writer raised %s because a second writer finished in between" % exc_repr})
        if new is not None:
            if partial:
                k, op, rel, ln = partial[0]
                viol.append({"clause": "reader-partial", "detail": "reader after event %d (%s) saw %s with %d bytes: neither old nor new" % (k, op, rel, ln)})
            if outcome in ("returned", "raised"):
                for rel in dests:
                    if not allowed(rel, final[rel]):
                        viol.append({"clause": "after-" + ("error" if outcome == "raised" else "return"),
                                     "detail": "%s after %s %s holds %s bytes: neither old (%s) nor new (%s)" % (
                                         rel, outcome, exc_repr, None if final[rel] is None else len(final[rel]),
                                         None if olds.get(rel) is None else len(olds[rel] or b""),
                                         None if new.get(rel) is None else len(new[rel] or b""))})
                # (the sidecar writer is declared best-effort: it swallows failures, so no such claim there)
                if outcome == "returned" and prog["caller"] != "sidecar" and final[dests[0]] != new.get(dests[0]) and not second["ran"]:
                    if allowed(dests[0], final[dests[0]]):
                        viol.append({"clause": "lost-write", "detail": "%s returned normally but %s still holds the old content" % (prog["caller"], dests[0])})
                leftover_check({"snap": fs.listing("snap"), "logs": fs.listing("logs")}, "after " + outcome)
                pick = snapshot._pick_latest_snapshot_path(os.path.join(root, "snap"))
                if pick is not None and os.path.relpath(pick, root) not in legit:
                    viol.append({"clause": "leftover-mistaken", "detail": "snapshot discovery picked leftover %s" % os.path.relpath(pick, root)})
            else:
                states, exhaustive = fs.shadow.crash_states(limit=400, stream=rng.stream("crash"))
                stats["crash_states"] = stats.get("crash_states", 0) + len(states)
                stats["crash_state_sets_exhaustive"] = stats.get("crash_state_sets_exhaustive", 0) + int(exhaustive)
                # the process-kill state (page cache survives) is the real directory as it is now
                kill_state = {}
                for d in ("snap", "logs"):
                    for n in fs.listing(d):
                        kill_state["%s/%s" % (d, n)] = fs.read("%s/%s" % (d, n))
                seen_namesets = set()
                for si, st in enumerate([kill_state] + states):
                    for rel in dests:
                        if not allowed(rel, st.get(rel)):
                            viol.append({"clause": "crash-state" if si else "kill-state",
                                         "detail": "crash at event %s: state %d has %s with %s bytes: neither old nor new" % (
                                             fs.crashed_at, si, rel, None if st.get(rel) is None else len(st[rel]))})
                            break
                    ns = tuple(sorted(st))
                    if ns in seen_namesets:
                        continue
                    seen_namesets.add(ns)
                    by_dir: Dict[str, List[str]] = {}
                    for rel in st:
                        d, n = rel.split("/", 1)
                        by_dir.setdefault(d, []).append(n)
                    leftover_check(by_dir, "crash state")
                    extra = [rel for rel in st if rel not in legit and rel.startswith("snap/")]
                    if extra:
                        with Scratch() as tmp:
                            materialise({rel: st[rel] for rel in st if rel.startswith("snap/")}, tmp)
                            pick = snapshot._pick_latest_snapshot_path(os.path.join(tmp, "snap"))
                            stats["discovery_on_crash_state"] = stats.get("discovery_on_crash_state", 0) + 1
                            if pick is not None and os.path.relpath(pick, tmp) not in legit:
                                viol.append({"clause": "leftover-mistaken", "detail": "snapshot discovery picked %s in a crash state" % os.path.relpath(pick, tmp)})
        return {"trace": list(fs.trace), "outcome": outcome, "final": final, "viol": viol, "fired": dict(plan.fired),
                "sim_s": clock.sim_seconds(), "exc": exc_repr, "retries": clock.fired.get("sleep", 0)}


def _fault_cases(trace, rng_stream, n_double: int) -> List[List[Dict[str, Any]]]:
    cases: List[List[Dict[str, Any]]] = []
    for (k, op, rel, detail, kind) in trace:
        if kind != "ro":
            cases.append([{"k": k, "kind": "crash"}])
        if op == "write":
            n = int(detail or 0)
            for keep in sorted({0, 1, n // 2, n - 1}):
                if 0 <= keep < n:
                    cases.append([{"k": k, "kind": "short", "keep": keep}])
        if op == "replace":
            for en in ERR_KINDS:
                for times in (1, 5, 79, 80, -1):
                    cases.append([{"k": k, "kind": "error", "errno": en, "times": times}])
            for times in (1, 5, 79, 80, -1):
                cases.append([{"k": k, "kind": "error", "exc": "PermissionError", "errno": "EACCES", "times": times}])
        else:
            for en in ERR_KINDS:
                cases.append([{"k": k, "kind": "error", "errno": en, "times": 1}])
            cases.append([{"k": k, "kind": "error", "errno": "EIO", "times": -1}])
            cases.append([{"k": k, "kind": "error", "exc": "PermissionError", "errno": "EACCES", "times": 1}])
    # crash after the last event = nothing injected: covered by the fault-free run.
    singles = [c for c in cases if c[0]["kind"] != "crash"]
    for _ in range(n_double):
        if not singles:
            break
        first = dict(rng_stream.choice(singles)[0])
        second_op = rng_stream.choice(["unlink", "stat", "unlink", "replace", "fsync"])
        second = {"op": second_op, "nth": rng_stream.randint(0, 1), "kind": rng_stream.choice(["error", "crash"]),
                  "errno": rng_stream.choice(ERR_KINDS), "times": rng_stream.choice([1, -1])}
        cases.append([first, second])
    return cases


def _sig(prog: Dict[str, Any], clause: str, faults: List[Dict[str, Any]], trace) -> str:
    parts = []
    for f in faults:
        op = "?"
        if f.get("k") is not None and f["k"] < len(trace):
            op = trace[f["k"]][1]
        elif "op" in f:
            op = f["op"]
        kind = f.get("kind")
        tag = kind if kind != "error" else (f.get("exc") or f.get("errno", "EIO"))
        if kind == "error" and int(f.get("times", 1)) != 1:
            tag += "x%s" % ("inf" if int(f.get("times", 1)) < 0 else "n")
        parts.append("%s/%s" % (op, tag))
    return "%s:%s:%s" % (prog["caller"], clause, "+".join(parts) or "nofault")


def execute(prog: Dict[str, Any]) -> Dict[str, Any]:
    stats: Dict[str, int] = {}
    faults_fired: Dict[str, int] = {}
    violations: List[Dict[str, Any]] = []
    keys: List[str] = []
    sim_s = 0.0
    # 1. learn the event sequence and the complete new content
    dry = _run_case(prog, [], None, stats)
    if dry["outcome"] != "returned":
        violations.append({"cls": "no-fault", "sig": "%s:no-fault-failure" % prog["caller"],
                           "detail": "fault-free write did not return: %s %s" % (dry["outcome"], dry["exc"])})
        return {"violations": violations, "stats": stats, "faults": {}, "nontrivial": True, "key": "nofault"}
    new = dry["final"]
    base_trace = dry["trace"]
    stats["events_per_write"] = len(base_trace)
    if prog.get("faults") == "ALL":
        cases = [[]] + _fault_cases(base_trace, Rng(int(prog["cseed"])).stream("double"), int(prog.get("double_faults", 3)))
        if prog["caller"] in ("bytes", "text", "json", "export"):
            # two writers of one destination: the second runs to completion after event k of the first, for every k
            cases += [[{"k": k, "kind": "second_writer"}] for k in range(len(base_trace))]
    else:
        cases = [list(prog.get("faults") or [])]
    log_lines: List[str] = []
    for faults in cases:
        res = _run_case(prog, [dict(f) for f in faults], new, stats)
        stats["evaluations"] = stats.get("evaluations", 0) + 1
        sim_s += res["sim_s"]
        stats["retry_sleeps"] = stats.get("retry_sleeps", 0) + int(res["retries"])
        fired = sum(res["fired"].values())
        for kf, n in res["fired"].items():
            faults_fired[kf] = faults_fired.get(kf, 0) + n
        stats["outcome_" + res["outcome"]] = stats.get("outcome_" + res["outcome"], 0) + 1
        if fired or not faults or faults[0].get("kind") == "second_writer":
            f0 = faults[0] if faults else {}
            op0 = base_trace[f0["k"]][1] if f0.get("k") is not None and f0["k"] < len(base_trace) else f0.get("op", "none")
            keys.append("%s|%s|%s|%s|%s|%s" % (prog["caller"], prog["old"], prog["new"], op0, f0.get("kind", "none"),
                                               f0.get("exc") or f0.get("errno", "")))
        log_lines.append("%s %s %d" % (json.dumps(faults, sort_keys=True), res["outcome"], len(res["trace"])))
        for v in res["viol"]:
            sig = _sig(prog, v["clause"], faults, base_trace)
            p2 = dict(prog)
            p2["faults"] = [dict(f) for f in faults]
            violations.append({"cls": v["clause"], "sig": sig, "detail": v["detail"] + " | faults=%s" % json.dumps(faults), "program": p2})
    import hashlib
    return {"violations": violations, "stats": stats, "faults": faults_fired, "nontrivial": True,
            "keys": keys, "key": keys[0] if keys else "none", "sim_s": sim_s,
            "log": hashlib.blake2b("\n".join(log_lines).encode(), digest_size=8).hexdigest()}
