"""C13 - planning and speaking stay within caps; untrusted plans are sanitised.

turns  monitors on every turn of whole-engine runs: op cap, Speak-first with the intent the thresholds dictate, RequestRetrieve only
       below tau_low, at most two retrieval calls per turn, utterance within its token budget, planner purity.
peer   the real LLM planner/speaker path (run_policy -> plan_with_llm -> QwenLLMAdapter -> _ollama_call -> urllib) against an
       in-process fake HTTP peer that answers with valid, fenced, prose-wrapped, torn, duplicated, oversized, wrongly typed or
       non-UTF-8 bodies, raises URLError/timeouts or stalls the simulated clock.
"""
from __future__ import annotations

import copy
import io
import json
import os
import socket
import types
import urllib.error
import urllib.request
from typing import Any, Dict, List, Optional

from vsim import use_repo

use_repo()

from vsim import engine as E  # noqa: E402
from vsim.clock import SimClock  # noqa: E402
from vsim.rng import Rng  # noqa: E402
from vsim.scratch import Scratch  # noqa: E402

import clematis.engine.orchestrator as orch  # noqa: E402
import clematis.engine.orchestrator.core as core  # noqa: E402
from clematis.engine.policy.sanitize import parse_and_validate  # noqa: E402
from clematis.engine.policy.json_schemas import PLANNER_V1  # noqa: E402
from clematis.engine.stages.t3 import deliberate as real_deliberate, llm_speak, make_dialog_bundle, make_plan_bundle  # noqa: E402
import importlib  # noqa: E402
import clematis.engine.stages.t3.dialogue as dialogue  # noqa: E402

policy = importlib.import_module("clematis.engine.stages.t3.policy")

PROPERTY = "C13"
LEVEL = "exploration"
RUNS = {"quick": 2500, "thorough": 40000}
RULE = ("one run = (turns) seeded world + swarm config (op caps incl. slice cap 0, thresholds, token budgets, templates) + 2-5 turns with "
        "monitors, or (peer) a generated peer script of 1-4 HTTP responses (valid / fenced / prose-wrapped / torn at byte k / duplicated / "
        "oversized / wrong types / non-UTF-8 / URLError / timeout / stall) fed to the real planner and speaker path. non-trivial = the plan had "
        "more than one op or the peer answered at least once with something other than plain valid JSON; distinct = digest of the program")
REAL = ["t3.policy.deliberate, rag_once, speak/llm_speak, run_turn T3 block", "run_policy/plan_with_llm/_get_llm_adapter_from_cfg/_ollama_call",
        "QwenLLMAdapter", "policy.sanitize.parse_and_validate"]
STUBS = ["urllib.request.urlopen -> in-process fake peer (responses, faults and stalls scripted by the seed)", "clock: SimClock"]
ASSUMPTIONS = ["acceptance is checked in one direction only: accepted => an independent strict reading accepts (the adapter re-joins tokens "
               "with single spaces, so some well-formed answers are legitimately refused)",
               "planner purity/threshold clauses are input-quantified and evaluated on the bundles the runs produce"]
SHRINK_FIELDS = ["ops", "script", "bundles"]

PLANS = [
    {"plan": ["look up river", "reply"], "rationale": "because", "reflection": True},
    {"plan": [], "rationale": "nothing to do"},
    {"plan": ["a" * 200], "rationale": "r" * 2000, "reflection": "yes"},
    {"plan": ["a" * 201], "rationale": "too long item"},
    {"plan": ["x"] * 17, "rationale": "too many"},
    {"plan": ["ok"], "rationale": ""},
    {"plan": "not a list", "rationale": "x"},
    {"plan": ["ok", 5], "rationale": "x"},
    {"plan": ["ok"], "rationale": "x", "extra": 1},
    {"plan": ["ok"], "rationale": "x", "reflection": "maybe"},
    {"plan": [" "], "rationale": "x"},
    ["plan", "as", "array"],
    [{"plan": ["wrapped"], "rationale": "object inside an array"}],
    {"plan": ["ok"], "rationale": "fine", "reflection": 1},
    {"plan": ["multi word item"], "rationale": "with  double  spaces"},
    "just a string",
    {"plan": ["ünï", "日本"], "rationale": "unicode ✓"},
    # over the limit only through padding: the size limits are on the strings the accepted object carries, not on what is left after trimming
    {"plan": ["step one" + " " * 193], "rationale": "padded item"},
    {"plan": ["ok", " " * 120 + "x" * 100], "rationale": "padded in front"},
    {"plan": ["ok"], "rationale": "r" * 1500 + "\t" * 501},
    {"plan": ["a" * 198 + "  "], "rationale": " " + "r" * 1999},
]
WRAPS = ["plain", "fenced_json", "fenced_none", "fenced_py", "prose_before", "prose_after", "two_objects", "torn", "oversized", "nan", "nested_deep", "empty",
         "nested_obj", "nested_in_plan", "nested_fenced", "nested_open", "bigint", "bigexp", "surrogate", "bom", "nul", "dup_keys",
         # something AFTER a well-formed fenced block: prose, a second block, a stray fence, a lot of junk
         "fenced_then_prose", "two_fenced", "fenced_then_fence", "fenced_then_junk", "fenced_then_object"]
TRANSPORT = ["ok", "ok", "ok", "urlerror", "timeout", "non_utf8", "not_json_envelope", "response_not_string", "torn_envelope", "stall", "http_500"]


_TAUS = [0.0, 0.0, 0.2, 0.4, 0.5, 0.8, 1.0]


_T2_EXC = {"OSError": lambda: OSError(5, "injected EIO"), "TimeoutError": TimeoutError, "BlockingIOError": BlockingIOError, "FileNotFoundError": FileNotFoundError,
           "ConnectionError": ConnectionError, "ValueError": ValueError, "RuntimeError": RuntimeError}
_T2_EXC = {k: (v if isinstance(v, type) else type(v())) for k, v in _T2_EXC.items()}


def _gen_bundle(r) -> Dict[str, Any]:
    th, tl = r.choice(_TAUS), r.choice(_TAUS)
    if tl > th:
        th, tl = tl, th
    pol: Dict[str, Any] = {}
    if r.chance(0.85):
        pol["tau_high"] = th
    if r.chance(0.85):
        pol["tau_low"] = tl if not r.chance(0.05) else float("nan")
    if r.chance(0.6):
        pol["epsilon_edit"] = r.choice([0.0, 0.05, 0.1, 0.5])
    nodes = [{"id": "n%d" % i, "label": r.choice(E.VOCAB), "delta": r.choice([0.0, 0.01, 0.05, 0.09, 0.1, 0.3, -0.2, -0.04])} for i in range(r.randint(0, 6))]
    if r.chance(0.15):
        # more distinct labels than a Speak op carries: which ones survive must be a function of the bundle, not of the process
        nodes = [{"id": "n%d" % i, "label": lb, "delta": r.choice([0.0, 0.1, 0.3])} for i, lb in enumerate(r.sample(E.VOCAB, min(len(E.VOCAB), r.randint(7, 12))))]
    b: Dict[str, Any] = {
        "cfg": {"t3": {"tokens": r.choice([0, 1, 5, 256]), "max_rag_loops": r.choice([0, 1])}, "t2": {"owner_scope": r.choice(["any", "agent", "world"]), "k_retrieval": r.choice([1, 2, 10])}},
        "agent": {"caps": {"ops": r.choice([0, 1, 2, 3, 8])}},
        # (a degenerate score - not a number - is not "below the low threshold")
        "t2": {"metrics": {"sim_stats": {"max": r.choice([0.0, 0.05, 0.2, 0.39, 0.4, 0.41, 0.6, 0.79, 0.8, 0.95, 1.0, -0.3, float("nan")])}}},
        "t1": {"touched_nodes": nodes}, "text": {"input": E.gen_text(r), "labels_from_t1": [n["label"] for n in nodes] if r.chance(0.5) else []},
        "now": "2023-11-14T22:13:20+00:00"}
    if pol or r.chance(0.5):
        b["cfg"]["t3"]["policy"] = pol
    if r.chance(0.4):
        b["slice_caps"] = {"t3_ops": r.choice([0, 1, 2, 5])}
    b["dialog_caps_tokens"] = r.choice([0, 1, 8, 256])
    if r.chance(0.3):
        b["style_prefix"] = r.choice(["calm", "two words"])
    if r.chance(0.3):
        b["template"] = r.choice(["{intent} {labels}", "{labels}", "say {intent} now please thank you"])
    return b


def generate(seed: int, tier: str) -> Dict[str, Any]:
    rng = Rng(seed)
    r = rng.stream("gen")
    if r.chance(0.25):
        return {"target": "bundle", "bundles": [_gen_bundle(rng.stream("bundle%d" % i)) for i in range(r.randint(1, 6))]}
    if r.chance(0.5):
        world = E.gen_world(rng.stream("world"), n_agents=r.randint(1, 2), bad_ts=False)
        raw = E.valid_cfg(rng.stream("config"), ["t1", "t2", "t3", "t3", "t4"], p=0.5)
        raw.setdefault("t2", {})["sim_threshold"] = r.choice([-1.0, 0.0, 0.3])
        if r.chance(0.35):
            raw["scheduler"] = {"enabled": True, "quantum_ms": 10**9, "budgets": {"wall_ms": 2 * 10**9, "t3_ops": r.choice([0, 1, 2, 3])}}
        if r.chance(0.4):
            raw.setdefault("t3", {})["dialogue"] = {"template": r.choice(["summary: {labels}. next: {intent}", "{intent} {snippets}", "{labels}"]),
                                                    "include_top_k_snippets": r.choice([0, 2])}
        if r.chance(0.4):
            raw.setdefault("t3", {})["tokens"] = r.choice([1, 2, 3])
        if r.chance(0.4):
            th, tl = r.choice(_TAUS), r.choice(_TAUS)
            raw.setdefault("t3", {})["policy"] = {"tau_high": max(th, tl), "tau_low": min(th, tl), "epsilon_edit": r.choice([0.0, 0.05, 0.1, 0.5])}
        ops = E.gen_ops(rng.stream("ops"), world, r.randint(2, 5), p_mut=0.1)
        if r.chance(0.3):
            # a retrieval backend that fails on the first attempt of the refinement (or of the turn), once or persistently
            raw.setdefault("t2", {})["sim_threshold"] = 0.3
            th, tl = r.choice([0.8, 1.0]), r.choice([0.8, 1.0])
            raw.setdefault("t3", {})["policy"] = {"tau_high": max(th, tl), "tau_low": min(th, tl)}
            raw["t3"]["max_rag_loops"] = 1
            raw["t3"].pop("max_ops_per_turn", None)
            for o in ops:
                if o["op"] == "turn" and r.chance(0.7):
                    o["t2_fault"] = {"calls": r.choice([[1], [1], [1, 2], [0], [1, 2, 3]]), "exc": r.choice(sorted(_T2_EXC))}
        return {"target": "turns", "world": world, "cfg": raw, "ops": ops, "style_prefix": r.choice(["", "calm", "two words", "very calm indeed", "a|b c"])}
    script = []
    for _ in range(r.randint(1, 4)):
        script.append({"plan": r.randint(0, len(PLANS) - 1), "wrap": r.choice(WRAPS), "transport": r.choice(TRANSPORT), "cut": r.randint(0, 300),
                       "stall_s": r.choice([0, 5, 100000])})
    return {"target": "peer", "script": script, "max_tokens": r.choice([1, 8, 64, 256]), "tokens": r.choice([1, 3, 256]), "timeout_ms": r.choice([1, 1000, 10000]),
            "style_prefix": r.choice(["", "calm", "very calm", "three word prefix"])}


# ---------------------------------------------------------------------------
def _strict(text: str) -> Optional[Dict[str, Any]]:
    """Independent strict reading: one JSON object (optionally in a single json fence), documented keys and limits."""
    if not isinstance(text, str) or len(text) > 20000:
        return None
    t = text.strip()
    if t.startswith("```"):
        if not t.endswith("```") or "\n" not in t:
            return None
        head, rest = t.split("\n", 1)
        if head[3:].strip().lower() not in ("", "json", "jsonc"):
            return None
        t = rest[:-3].strip()
    try:
        obj = json.loads(t)
    except Exception:
        return None
    if not isinstance(obj, dict) or not set(obj) <= {"plan", "rationale", "reflection"} or "plan" not in obj or "rationale" not in obj:
        return None
    pl, ra = obj["plan"], obj["rationale"]
    if not isinstance(pl, list) or len(pl) > 16 or any((not isinstance(x, str)) or not x.strip() or len(x) > 200 for x in pl):
        return None
    if not isinstance(ra, str) or not (1 <= len(ra) <= 2000):
        return None
    return {"plan": pl, "rationale": ra}


def _text(step: Dict[str, Any]) -> str:
    """The planner's answer text (what reaches the sanitiser when the transport is healthy)."""
    obj = PLANS[int(step["plan"]) % len(PLANS)]
    txt = json.dumps(obj, ensure_ascii=False)
    w = step["wrap"]
    depth = 1200 + (int(step.get("cut", 0)) % 7) * 1100   # 1200 .. 7800 levels, all under the 20000 character guard
    if w == "fenced_json":
        txt = "```json\n%s\n```" % txt
    elif w == "fenced_then_prose":
        txt = "```json\n%s\n```\nHope this helps." % txt
    elif w == "two_fenced":
        txt = "```json\n%s\n```\n```json\n%s\n```" % (txt, json.dumps({"plan": ["something else"], "rationale": "second block"}))
    elif w == "fenced_then_fence":
        txt = "```\n%s\n```\n```" % txt
    elif w == "fenced_then_junk":
        txt = "```jsonc\n%s\n```\n%s" % (txt, "junk " * (200 + int(step.get("cut", 0)) % 2000))
    elif w == "fenced_then_object":
        txt = "```json\n%s\n```\n%s" % (txt, json.dumps({"plan": ["another"], "rationale": "bare object after the fence"}))
    elif w == "fenced_none":
        txt = "```\n%s\n```" % txt
    elif w == "fenced_py":
        txt = "```python\n%s\n```" % txt
    elif w == "prose_before":
        txt = "Sure! Here is the plan: " + txt
    elif w == "prose_after":
        txt = txt + "\nHope this helps."
    elif w == "two_objects":
        txt = txt + txt
    elif w == "torn":
        txt = txt[: int(step["cut"]) % max(1, len(txt))]
    elif w == "oversized":
        txt = json.dumps({"plan": ["p"], "rationale": "r", "reflection": False}) + " " * 30000
    elif w == "nan":
        txt = '{"plan": ["p"], "rationale": "r", "reflection": NaN}'
    elif w == "nested_deep":
        txt = "[" * 5000 + "]" * 5000
    elif w == "nested_obj":
        txt = '{"a":' * min(depth, 3900) + "1" + "}" * min(depth, 3900)
    elif w == "nested_in_plan":
        txt = '{"plan": [' + "[" * depth + "]" * depth + '], "rationale": "r"}'
    elif w == "nested_fenced":
        txt = "```json\n" + "[" * depth + "]" * depth + "\n```"
    elif w == "nested_open":
        txt = "[" * (2 * depth)
    elif w == "bigint":
        txt = '{"plan": ["p"], "rationale": "r", "reflection": %s}' % ("9" * 5000)
    elif w == "bigexp":
        txt = '{"plan": ["p"], "rationale": "r", "reflection": 1e999999}'
    elif w == "surrogate":
        txt = '{"plan": ["\\ud800"], "rationale": "\\udfff x"}'
    elif w == "bom":
        txt = "\ufeff" + txt
    elif w == "nul":
        txt = txt[: len(txt) // 2] + "\x00" + txt[len(txt) // 2:]
    elif w == "dup_keys":
        txt = '{"plan": ["a"], "plan": 5, "rationale": "r", "rationale": "s"}'
    elif w == "empty":
        txt = ""
    return txt


def _body(step: Dict[str, Any]) -> bytes:
    txt = _text(step)
    tr = step["transport"]
    if tr == "not_json_envelope":
        return b"<html>busy</html>"
    if tr == "response_not_string":
        return json.dumps({"response": {"nested": txt}}).encode()
    env = json.dumps({"response": txt, "done": True}, ensure_ascii=False).encode("utf-8")
    if tr == "non_utf8":
        return env[:10] + b"\xff\xfe\x80" + env[10:]
    if tr == "torn_envelope":
        return env[: int(step["cut"]) % max(1, len(env))]
    return env


class _Resp(io.BytesIO):
    def __enter__(self):
        return self

    def __exit__(self, *a):
        self.close()
        return False


def _peer(p: Dict[str, Any], stats: Dict[str, int], faults: Dict[str, int]) -> List[Dict[str, Any]]:
    viol: List[Dict[str, Any]] = []

    def bad(sig, detail):
        if not any(v["sig"] == sig for v in viol):
            viol.append({"cls": "peer", "sig": sig, "detail": detail})

    clock = SimClock(None, "steady")
    real_urlopen = urllib.request.urlopen
    with Scratch() as root:
        with E.EngineEnv(root, clock, ci=False):
            cfg = E.make_cfg({"t3": {"backend": "llm", "tokens": int(p["tokens"]),
                                     "llm": {"provider": "ollama", "endpoint": "http://peer.invalid/api/generate", "max_tokens": int(p["max_tokens"]),
                                             "timeout_ms": int(p["timeout_ms"])}}})
            cur: Dict[str, Any] = {}

            def fake_urlopen(req, timeout=None, **kw):
                step = cur["step"]
                cur["calls"] = cur.get("calls", 0) + 1
                tr = step["transport"]
                faults["peer_" + tr] = faults.get("peer_" + tr, 0) + 1
                faults["wrap_" + step["wrap"]] = faults.get("wrap_" + step["wrap"], 0) + 1
                if tr == "stall":
                    clock.advance(int(step["stall_s"]) * 1_000_000_000)
                    if timeout is not None and step["stall_s"] > timeout:
                        raise socket.timeout("timed out")
                if tr == "urlerror":
                    raise urllib.error.URLError("connection refused")
                if tr == "timeout":
                    raise socket.timeout("timed out")
                if tr == "http_500":
                    raise urllib.error.HTTPError(getattr(req, "full_url", "u"), 500, "boom", {}, io.BytesIO(b""))  # type: ignore[arg-type]
                return _Resp(_body(step))

            urllib.request.urlopen = fake_urlopen
            try:
                for si, step in enumerate(p["script"]):
                    stats["evaluations"] = stats.get("evaluations", 0) + 1
                    cur["step"] = step
                    cur["calls"] = 0
                    st = types.SimpleNamespace(logs=[])
                    ctx = E.make_ctx(cfg, "Ambrose", si, E.T0_MS)
                    ctxs = "step#%d %s" % (si, {k: step[k] for k in ("plan", "wrap", "transport")})
                    try:
                        out = policy.run_policy({"name": "llm", "meta": {}}, {}, cfg, ctx, state=st)
                    except Exception as e:  # noqa: BLE001
                        bad("planner-raised:%s" % type(e).__name__, "%s: %r" % (ctxs, e))
                        continue
                    plan, rat = out.get("plan"), out.get("rationale")
                    if plan == [] and isinstance(rat, str) and rat.startswith("fallback:"):
                        stats["fallback_plans"] = stats.get("fallback_plans", 0) + 1
                    else:
                        stats["accepted_plans"] = stats.get("accepted_plans", 0) + 1
                        # what the adapter handed to the sanitiser: the peer's text re-joined and clipped
                        accepted_src = None
                        if step["transport"] in ("ok", "stall"):
                            try:
                                env = json.loads(_body(step).decode("utf-8"))
                                raw = env.get("response")
                                if isinstance(raw, str):
                                    accepted_src = " ".join(raw.split()[: int(p["max_tokens"])])
                            except Exception:
                                accepted_src = None
                        strict = _strict(accepted_src) if accepted_src is not None else None
                        if strict is None:
                            bad("accepted-non-conforming-plan:%s" % step["wrap"], "%s: planner returned %s but a strict reading of the peer's answer rejects it" % (ctxs, str(out)[:200]))
                        elif strict["plan"] != plan or strict["rationale"] != rat:
                            bad("accepted-plan-differs-from-answer", "%s: %s vs %s" % (ctxs, str(out)[:160], str(strict)[:160]))
                    # direct sanitiser totality on the raw peer text as well
                    try:
                        env_txt = _body(step).decode("utf-8", "replace")
                        ok, obj = parse_and_validate(env_txt, PLANNER_V1)
                        if ok and _strict(env_txt) is None:
                            bad("sanitiser-accepted-non-conforming", "%s" % ctxs)
                    except Exception as e:  # noqa: BLE001
                        bad("sanitiser-raised:%s" % type(e).__name__, "%s: %r" % (ctxs, e))
                    # ... and on the answer text itself (the envelope hides its structure inside a JSON string)
                    try:
                        inner = _text(step)
                        ok, obj = parse_and_validate(inner, PLANNER_V1)
                        if ok and _strict(inner) is None:
                            bad("sanitiser-accepted-non-conforming:%s" % step["wrap"], "%s" % ctxs)
                        elif ok and (obj.get("plan") != _strict(inner)["plan"] or obj.get("rationale") != _strict(inner)["rationale"]):
                            bad("sanitiser-altered-plan", "%s: %s" % (ctxs, str(obj)[:200]))
                    except Exception as e:  # noqa: BLE001
                        bad("sanitiser-raised:%s" % type(e).__name__, "%s (answer text): %r" % (ctxs, e))
                    # speaker path with the same peer
                    adapter = policy.build_llm_adapter(cfg)
                    plan_obj = real_deliberate({"cfg": {"t3": {"tokens": int(p["tokens"])}, "t2": {}}, "agent": {"caps": {"ops": 3}}, "t2": {"metrics": {}}, "t1": {}, "text": {}})
                    dlg = {"agent": {"style_prefix": p.get("style_prefix", ""), "caps": {"tokens": int(p["tokens"])}}, "text": {"input": "hi", "labels_from_t1": []},
                           "retrieved": [], "dialogue": {}, "now": "2023-11-14T22:13:20+00:00"}
                    try:
                        utter, m = llm_speak(dlg, plan_obj, adapter)
                        if len(str(utter).split()) > int(p["tokens"]):
                            bad("utterance-over-budget:llm", "%s: %d tokens > %d: %r" % (ctxs, len(str(utter).split()), int(p["tokens"]), utter))
                    except Exception as e:  # noqa: BLE001
                        bad("speaker-raised:%s" % type(e).__name__, "%s: %r" % (ctxs, e))
            finally:
                urllib.request.urlopen = real_urlopen
    return viol


def _turns(p: Dict[str, Any], stats: Dict[str, int]) -> List[Dict[str, Any]]:
    viol: List[Dict[str, Any]] = []

    def bad(sig, detail):
        if not any(v["sig"] == sig for v in viol):
            viol.append({"cls": "turns", "sig": sig, "detail": detail})

    clock = SimClock(None, "steady")
    with Scratch() as root:
        with E.EngineEnv(root, clock) as ee:
            run = E.EngineRun(p["world"], p["cfg"], ee)
            real_t2 = core.t2_semantic
            cnt = {"t2": 0}
            seen: Dict[str, Any] = {}
            cur_fault: Dict[str, Any] = {"f": None}

            def t2w(ctx, state, text, t1):
                cnt["t2"] += 1
                fl = cur_fault.get("f")
                if fl and cnt["t2"] - 1 in fl["calls"]:
                    # the retrieval backend fails (reader I/O, time-out): whatever the turn does about it,
                    # it must not turn one refinement into several
                    stats["retrieval_faults_fired"] = stats.get("retrieval_faults_fired", 0) + 1
                    raise _T2_EXC[fl["exc"]]()
                return real_t2(ctx, state, text, t1)

            def delib(ctx, state, bundle):
                b0 = copy.deepcopy(bundle)
                plan = real_deliberate(bundle)
                plan2 = real_deliberate(copy.deepcopy(b0))
                if bundle != b0:
                    bad("planner-mutates-bundle", "deliberate changed its bundle")
                if plan != plan2:
                    bad("planner-not-pure", "%s vs %s" % (plan, plan2))
                seen["bundle"], seen["plan"] = b0, plan
                return plan

            orch.t2_semantic = t2w
            core.t2_semantic = t2w
            orch.t3_deliberate = delib
            core.t3_deliberate = delib
            try:
                for oi, op in enumerate(p["ops"]):
                    if op["op"] != "turn":
                        run.step(op)
                        continue
                    cnt["t2"] = 0
                    seen.clear()
                    stats["evaluations"] = stats.get("evaluations", 0) + 1
                    top = dict(op)
                    if p.get("style_prefix"):
                        top["ctx"] = {"style_prefix": p["style_prefix"]}
                    cur_fault["f"] = op.get("t2_fault")
                    try:
                        res = run.step(top)
                    except tuple(x for x in _T2_EXC.values()) as e:
                        if not op.get("t2_fault"):
                            raise
                        # the injected failure surfaced: the turn is over; the retrieval count still binds
                        stats["turns_ended_by_retrieval_fault"] = stats.get("turns_ended_by_retrieval_fault", 0) + 1
                        if cnt["t2"] > 2:
                            bad("more-than-one-refinement", "%d retrieval calls in one turn (retrieval failing with %s at call(s) %s); op#%d text=%r" % (
                                cnt["t2"], type(e).__name__, op["t2_fault"]["calls"], oi, op["text"]))
                        if viol:
                            break
                        continue
                    finally:
                        cur_fault["f"] = None
                    t3 = run.cfg.get("t3") or {}
                    tokens = int(t3.get("tokens", 256))
                    ctxs = "op#%d text=%r t3=%s slice=%s" % (oi, op["text"], {k: t3.get(k) for k in ("max_ops_per_turn", "tokens", "policy", "max_rag_loops")},
                                                           getattr(run.last_ctx, "slice_budgets", None))
                    if cnt["t2"] > 2:
                        bad("more-than-one-refinement", "%d retrieval calls in one turn; %s" % (cnt["t2"], ctxs))
                    if cnt["t2"] == 2:
                        stats["rag_refinements"] = stats.get("rag_refinements", 0) + 1
                    line = getattr(res, "line", "") or ""
                    if "plan" in seen:
                        plan, b = seen["plan"], seen["bundle"]
                        base_ops = int(b.get("agent", {}).get("caps", {}).get("ops", 3))
                        slice_cap = (b.get("slice_caps") or {}).get("t3_ops")
                        cap = base_ops if slice_cap is None else min(base_ops, int(slice_cap))
                        ops = list(plan.ops)
                        if len(ops) > 1:
                            stats["multi_op_plans"] = stats.get("multi_op_plans", 0) + 1
                        if len(ops) > cap:
                            bad("ops-exceed-cap", "%d ops, cap min(%s, %s); %s" % (len(ops), base_ops, slice_cap, ctxs))
                        # the thresholds are the configured ones (t3.policy), not whatever part of the
                        # configuration the bundle happens to carry
                        pol = t3.get("policy") or {}
                        th, tl = float(pol.get("tau_high", 0.8)), float(pol.get("tau_low", 0.4))
                        if pol:
                            stats["turns_with_configured_thresholds"] = stats.get("turns_with_configured_thresholds", 0) + 1
                        s_max = float((b.get("t2", {}).get("metrics", {}).get("sim_stats", {}) or {}).get("max", 0.0))
                        if ops:
                            if getattr(ops[0], "kind", None) != "Speak":
                                bad("first-op-not-speak", "%s; %s" % (ops[0], ctxs))
                            else:
                                labels = list(ops[0].topic_labels)
                                want = "summary" if s_max >= th else (("assertion" if labels else "ack") if s_max >= tl else "question")
                                if ops[0].intent != want:
                                    bad("intent-vs-thresholds", "s_max=%s tau_high=%s tau_low=%s labels=%s: intent %s, expected %s; %s" % (s_max, th, tl, labels, ops[0].intent, want, ctxs))
                                if int(ops[0].max_tokens) != tokens:
                                    bad("speak-budget-not-configured-tokens", "%s vs %s; %s" % (ops[0].max_tokens, tokens, ctxs))
                        if any(getattr(o, "kind", None) == "RequestRetrieve" for o in ops) and not (s_max < tl):
                            bad("retrieve-requested-above-tau-low", "s_max=%s tau_low=%s; %s" % (s_max, tl, ctxs))
                        # the utterance is produced by speak() and then falls back to the input text only when empty
                        if ops and line != ((op["text"] or "").strip() or "…") and len(line.split()) > tokens:
                            bad("utterance-over-budget", "%d tokens > %d: %r; %s" % (len(line.split()), tokens, line, ctxs))
                    if viol:
                        break
            finally:
                core.t2_semantic = real_t2
                orch.t2_semantic = real_t2
    return viol


_CHILDREN: Dict[str, Any] = {}


def plan_ops_repr(bundle: Dict[str, Any]) -> List[str]:
    """Runs in a child interpreter (another PYTHONHASHSEED): the plan of a bundle, as text."""
    return [repr(o) for o in real_deliberate(bundle).ops]


class _Echo:
    """An adapter that answers with five plain words."""
    name = "echo"

    def generate(self, prompt, max_tokens, temperature):
        import types as _t
        return _t.SimpleNamespace(text="one two three four five", tokens=5, truncated=False)


def _bundles(p: Dict[str, Any], stats: Dict[str, int]) -> List[Dict[str, Any]]:
    """The planner as a pure function of its bundle, against the documented rules (thresholds and caps incl. 0)."""
    viol: List[Dict[str, Any]] = []

    def bad(sig, detail):
        if not any(v["sig"] == sig for v in viol):
            viol.append({"cls": "planner", "sig": sig, "detail": detail})

    for bi, b in enumerate(p["bundles"]):
        stats["evaluations"] = stats.get("evaluations", 0) + 1
        b0 = copy.deepcopy(b)
        try:
            plan = real_deliberate(b)
            plan2 = real_deliberate(copy.deepcopy(b0))
        except Exception as e:  # noqa: BLE001
            bad("planner-raised:%s" % type(e).__name__, "bundle#%d: %r" % (bi, e))
            continue
        if b != b0:
            bad("planner-mutates-bundle", "bundle#%d" % bi)
        ops, ops2 = list(plan.ops), list(plan2.ops)
        if [repr(o) for o in ops] != [repr(o) for o in ops2]:
            bad("planner-not-a-function", "bundle#%d: %s vs %s" % (bi, ops, ops2))
        n_labels = len({str(x) for x in (b0["text"]["labels_from_t1"] or [n.get("label") for n in b0["t1"]["touched_nodes"]])})
        if n_labels > 5:
            # the same bundle planned in an interpreter with another string-hash seed
            from vsim.child import Child
            hs = "7" if os.environ.get("PYTHONHASHSEED") != "7" else "11"
            ch = _CHILDREN.get(hs)
            if ch is None:
                ch = _CHILDREN[hs] = Child(hashseed=hs)
            other = ch.call("checks.c13", "plan_ops_repr", {"bundle": b0})
            if isinstance(other, dict):
                other = other.get("ok", other)
            stats["planned_in_other_interpreter"] = stats.get("planned_in_other_interpreter", 0) + 1
            if list(other) != [repr(o) for o in ops]:
                bad("planner-depends-on-the-process", "bundle#%d with %d distinct labels: %s here, %s under PYTHONHASHSEED=%s" % (bi, n_labels, [repr(o) for o in ops][:1], list(other)[:1], hs))
        pol = ((b0["cfg"]["t3"].get("policy")) or {})
        th, tl, eps = float(pol.get("tau_high", 0.8)), float(pol.get("tau_low", 0.4)), float(pol.get("epsilon_edit", 0.10))
        s = float(b0["t2"]["metrics"]["sim_stats"]["max"])
        base_ops = int(b0["agent"]["caps"]["ops"])
        cap = min(base_ops, int((b0.get("slice_caps") or {}).get("t3_ops", base_ops)))
        ctxs = "bundle#%d s_max=%s tau_high=%s tau_low=%s eps=%s cap=%d policy=%s" % (bi, s, th, tl, eps, cap, pol)
        if len(ops) > max(cap, 0):
            bad("ops-exceed-cap", "%d ops; %s" % (len(ops), ctxs))
        kinds = [getattr(o, "kind", type(o).__name__) for o in ops]
        if ops and kinds[0] != "Speak":
            bad("not-led-by-speak", "%s; %s" % (kinds, ctxs))
        if ops:
            labels = b0["text"]["labels_from_t1"] or [n.get("label") for n in b0["t1"]["touched_nodes"]]
            want = "summary" if s >= th else (("assertion" if labels else "ack") if s >= tl else "question")
            if getattr(ops[0], "intent", None) != want:
                bad("intent-not-by-thresholds", "intent %r, documented %r; %s" % (getattr(ops[0], "intent", None), want, ctxs))
            stats["intent_" + want] = stats.get("intent_" + want, 0) + 1
        if "RequestRetrieve" in kinds and not (s < tl):
            bad("retrieval-requested-above-low-threshold", ctxs)
        if cap >= 2 and s < tl and "RequestRetrieve" not in kinds:
            bad("retrieval-not-requested-below-low-threshold", ctxs)
        for o in ops:
            if getattr(o, "kind", "") == "EditGraph":
                ids = sorted(e["id"] for e in o.edits)
                want_ids = sorted(str(n["id"]) for n in b0["t1"]["touched_nodes"] if abs(float(n.get("delta", 0.0))) >= eps)
                if not set(ids) <= set(want_ids) or (len(want_ids) <= 4 * max(cap - 1, 0) and ids != want_ids):
                    bad("edit-selection-not-by-epsilon", "edits %s, nodes with |delta| >= %s are %s; %s" % (ids, eps, want_ids, ctxs))
        if cap >= 2 and s >= tl and "EditGraph" not in kinds and any(abs(float(n.get("delta", 0.0))) >= eps for n in b0["t1"]["touched_nodes"]):
            bad("edit-missing", ctxs)
        # speaking the plan: the utterance stays within the Speak op's own budget (0 included), whatever the agent-level
        # default of the dialogue bundle says
        if ops and kinds[0] == "Speak":
            budget = int(ops[0].max_tokens)
            caps_tokens = b0.get("dialog_caps_tokens", 8)
            dlg = {"agent": {"caps": {"tokens": caps_tokens}, "style_prefix": b0.get("style_prefix", "")},
                   "text": {"labels_from_t1": list(b0["text"]["labels_from_t1"])},
                   "dialogue": {"template": b0.get("template", "summary: {labels}. next: {intent}")}}
            for fn_name in ("speak", "llm_speak"):
                try:
                    if fn_name == "speak":
                        utter, met = dialogue.speak(copy.deepcopy(dlg), plan)
                    else:
                        utter, met = dialogue.llm_speak(copy.deepcopy(dlg), plan, _Echo())
                except Exception as e:  # noqa: BLE001
                    bad("%s-raised:%s" % (fn_name, type(e).__name__), "%r; %s" % (e, ctxs))
                    continue
                if len(str(utter).split()) > max(budget, 0):
                    bad("utterance-over-budget:%s:pure" % fn_name, "%d tokens with Speak.max_tokens=%d (bundle default %s): %r; %s" % (len(str(utter).split()), budget, caps_tokens, utter, ctxs))
                stats["spoken_budget_%s" % ("zero" if budget == 0 else "positive")] = stats.get("spoken_budget_%s" % ("zero" if budget == 0 else "positive"), 0) + 1
    return viol


def execute(p: Dict[str, Any]) -> Dict[str, Any]:
    stats: Dict[str, int] = {"target_" + p["target"]: 1}
    faults: Dict[str, int] = {}
    if p["target"] == "bundle":
        viol = _bundles(p, stats)
        return {"violations": viol, "stats": stats, "faults": faults, "nontrivial": True, "key": E.jdigest(p), "sim_s": 0.0, "log": E.jdigest([viol, stats])}
    if p["target"] == "peer":
        viol = _peer(p, stats, faults)
        nontrivial = any(s["wrap"] != "plain" or s["transport"] != "ok" for s in p["script"])
    else:
        viol = _turns(p, stats)
        nontrivial = bool(stats.get("multi_op_plans") or stats.get("rag_refinements"))
    return {"violations": viol, "stats": stats, "faults": faults, "nontrivial": nontrivial, "key": E.jdigest(p), "sim_s": 0.0, "log": E.jdigest([viol, stats])}
