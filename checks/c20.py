"""C20 - optional subsystems fail soft: a turn always completes.

Per run a random subset of the DECLARED fail-soft sites is armed with a random ordinary exception type (or, for the
boot loader, garbage files in the snapshot directory); a twin run executes the same program with those subsystems
switched off or idle.  Oracle: run_turn returns a TurnResult for every turn and the canonical t1/t2/t4/apply/turn
records equal the twin's.
"""
from __future__ import annotations

import copy
import json
import os
from typing import Any, Dict, List, Optional, Tuple

import logging

from vsim import use_repo

use_repo()
logging.getLogger().setLevel(logging.ERROR)

from vsim import engine as E  # noqa: E402
from vsim.buggify import EXC_TYPES, Sites  # noqa: E402
from vsim.clock import SimClock  # noqa: E402
from vsim.rng import Rng  # noqa: E402
from vsim.scratch import Scratch  # noqa: E402

import clematis.engine.orchestrator.core as core  # noqa: E402
from clematis.graph.store import InMemoryGraphStore  # noqa: E402

PROPERTY = "C20"
LEVEL = "exploration"
RUNS = {"quick": 2000, "thorough": 30000}
RULE = ("one run = seeded world (with GEL graph and memory) + config that switches the optional subsystems ON + 1-4 turns; a random "
        "subset (1-3) of the declared fail-soft sites is armed, each with a random exception type out of 13 (or garbage snapshot "
        "files for the boot loader); the twin runs the same turns with those subsystems off/idle. non-trivial = at least one armed "
        "fault actually fired; distinct = digest of (program)")
REAL = ["Orchestrator.run_turn and all stages", "load_latest_snapshot on generated garbage directories", "apply_changes",
        "apply_quality / rerank_with_gel / fusion / MMR", "GEL maintenance passes", "reflection compute/write/telemetry",
        "write_snapshot + sidecar"]
STUBS = ["fault sites: module attributes rebound to raising wrappers (buggify)", "store double whose apply_deltas always raises / is idle",
         "clock: SimClock"]
ASSUMPTIONS = [
    "sites are only those the engine declares fail-soft (try/except in run_turn, apply_changes, apply_quality, _write_sidecar_meta)",
    "boot loader: equality with the empty-directory twin is asserted only when the loader raised or reported loaded=False; when a "
    "well-formed foreign file was loaded only completion is asserted",
    "GEL maintenance sites are not combined with hybrid rerank in one run (a partially applied pass legitimately changes later reranks)",
    "telemetry fault (reflection log): the twin keeps reflection on (entries are written in both), all other reflection faults: twin has reflection off",
]
SHRINK_FIELDS = ["ops", "faults"]

CANON = ("t1.jsonl", "t2.jsonl", "t4.jsonl", "apply.jsonl", "turn.jsonl")

REGISTRY: Dict[str, Any] = {
    "boot_load": ("clematis.engine.orchestrator.core", "load_latest_snapshot"),
    "gel_observe": ("clematis.engine.orchestrator.core", "gel_observe"),
    "gel_tick": ("clematis.engine.orchestrator.core", "gel_tick"),
    "gel_merge_candidates": ("clematis.engine.orchestrator.core", "gel_merge_candidates"),
    "gel_apply_merge": ("clematis.engine.orchestrator.core", "gel_apply_merge"),
    "gel_split_candidates": ("clematis.engine.orchestrator.core", "gel_split_candidates"),
    "gel_apply_split": ("clematis.engine.orchestrator.core", "gel_apply_split"),
    "gel_promote_clusters": ("clematis.engine.orchestrator.core", "gel_promote_clusters"),
    "gel_apply_promotion": ("clematis.engine.orchestrator.core", "gel_apply_promotion"),
    "reflect": ("clematis.engine.stages.t3.reflect", "reflect"),
    "reflect_write": ("clematis.engine.orchestrator.reflection", "write_reflection_entries"),
    "reflect_log": ("clematis.engine.orchestrator.core", "log_t3_reflection"),
    "llm_adapter": ("clematis.engine.orchestrator.core", "build_llm_adapter"),
    "rerank_with_gel": ("clematis.engine.stages.t2.quality", "rerank_with_gel"),
    "fuse": ("clematis.engine.stages.t2.quality_ops", "fuse"),
    "mmr": ("clematis.engine.stages.t2.quality_ops", "maybe_apply_mmr"),
    "quality_trace": ("clematis.engine.stages.t2.quality", "_emit_quality_trace"),
    "sidecar": ("clematis.engine.snapshot", "_write_sidecar_meta"),
}
INSTANCE_SITES = ["index_add", "invalidate", "store_apply", "boot_garbage", "llm_fixture_missing"]
GEL_SITES = [s for s in REGISTRY if s.startswith("gel_")]
ALL_SITES = list(REGISTRY) + INSTANCE_SITES

GARBAGE = ["random_bytes", "truncated_json", "json_list", "json_string", "json_number", "empty_file", "wrong_types", "header_payload",
           "delta_without_base", "foreign_json", "huge_version", "gel_garbage", "nested_dir", "mutated_snapshot", "mutated_snapshot", "mutated_snapshot"]

# a snapshot as the engine writes it; "mutated_snapshot" replaces 1-3 sub-values at random paths by values of another shape
_TEMPLATE = {"turn": 1, "agent": "Ambrose", "version_etag": "2", "applied": 0, "deltas": [], "schema_version": "v1",
             "store": {"g0": {"nodes": [{"id": "n0", "label": "river", "attrs": {}}], "edges": [{"id": "e0", "src": "n0", "dst": "n0", "weight": 0.5, "rel": "supports", "attrs": {}}], "meta": {}}},
             "graph_schema_version": "v1.1",
             "gel": {"nodes": {"ep00": {"id": "ep00"}, "ep01": {"id": "ep01"}, "ep02": {"id": "ep02"}},
                     "edges": {"ep01\u2192ep02": {"src": "ep01", "dst": "ep02", "rel": "coact", "weight": 0.225432, "updated_at": None, "attrs": {"last_seen_turn": 0, "coact": 2}, "id": "ep01\u2192ep02"},
                               "ep00\u2192ep02": {"src": "ep00", "dst": "ep02", "rel": "coact", "weight": 0.650648, "updated_at": None, "attrs": {"last_seen_turn": 0, "coact": 1}, "id": "ep00\u2192ep02"}},
                     "meta": {"merges": [], "splits": [], "promotions": [], "concept_nodes_count": 0, "edges_count": 2, "schema": "v1.1"}},
             "graph": {"nodes_count": 3, "edges_count": 2, "meta": {"last_update": None}}}
_SHAPES: List[Any] = [None, 5, -1, 0.5, "x", "", [], {}, [1], ["a", "b"], {"a": 1}, True, 1e308, "NaN", [[]], [{}], {"id": 7}, "9" * 50, -0.0, 2**70,
                     # the non-finite tokens Python's JSON dialect reads and writes
                     float("nan"), float("inf"), float("-inf"), [float("nan")], {"x": float("inf")}]


def _mutated_snapshot(r) -> bytes:
    snap = copy.deepcopy(_TEMPLATE)

    def paths(t, pre=()):
        out = []
        if isinstance(t, dict):
            for k, v in t.items():
                out.append(pre + (k,))
                out.extend(paths(v, pre + (k,)))
        elif isinstance(t, list):
            for i, v in enumerate(t):
                out.append(pre + (i,))
                out.extend(paths(v, pre + (i,)))
        return out
    for _ in range(r.randint(1, 3)):
        ps = paths(snap)
        # the graph-evolution section is what later turns keep reading: bias towards it
        gel_ps = [p for p in ps if p and p[0] == "gel"]
        deep_ps = [p for p in gel_ps if len(p) >= 5]   # fields INSIDE an edge record (attrs.coact, attrs.last_seen_turn, ...)
        p = r.choice(deep_ps if deep_ps and r.chance(0.3) else (gel_ps if gel_ps and r.chance(0.6) else ps))
        cur = snap
        for k in p[:-1]:
            cur = cur[k]
        cur[p[-1]] = copy.deepcopy(r.choice(_SHAPES))
    return json.dumps(snap).encode()


def _garbage(kind: str, r) -> Tuple[str, bytes]:
    name = r.choice(["state_Ambrose.json", "state_x.json", "snap_000007.json", "other.json"])
    if kind == "mutated_snapshot":
        return name, _mutated_snapshot(r)
    if kind == "random_bytes":
        return name, r.bytes(r.randint(1, 200))
    if kind == "truncated_json":
        return name, b'{"version_etag": "7", "store": {"weights": [{"target_kind": "node", "tar'
    if kind == "json_list":
        return name, b'[1, 2, {"version_etag": "9"}]'
    if kind == "json_string":
        return name, b'"just a string"'
    if kind == "json_number":
        return name, b"42"
    if kind == "empty_file":
        return name, b""
    if kind == "wrong_types":
        return name, json.dumps({"version_etag": {"a": 1}, "store": 5, "gel": 7, "graph": "x", "schema_version": 3}).encode()
    if kind == "header_payload":
        return name, b'{"schema": "snapshot:v1", "mode": "full", "etag_to": "5"}\n{"version_etag": null, "store": null}'
    if kind == "delta_without_base":
        return name, b'{"schema": "snapshot:v1", "mode": "delta", "delta_of": "nope", "etag_to": "6"}\n{"_add": {"a": 1}, "_del": [], "_chg": {}}'
    if kind == "foreign_json":
        return name, json.dumps({"hello": "world", "nodes": [1, 2, 3]}).encode()
    if kind == "huge_version":
        return name, json.dumps({"version_etag": "9" * 400, "schema_version": "v1"}).encode()
    if kind == "gel_garbage":
        return name, json.dumps({"gel": {"nodes": 5, "edges": {"k": {"weight": "abc", "src": None, "dst": 3}, "j": 7}, "meta": []}}).encode()
    return "state_dir.json/inner.json", b"{}"


def generate(seed: int, tier: str) -> Dict[str, Any]:
    rng = Rng(seed)
    r = rng.stream("gen")
    n_sites = r.choice([1, 1, 1, 2, 2, 3])
    sites = r.sample(ALL_SITES, n_sites)
    # the boot loader (re)initialises state.graph; a pre-populated GEL graph is only used when no boot site is armed
    world = E.gen_world(rng.stream("world"), n_agents=r.randint(1, 2), bad_ts=False,
                        with_gel=not any(x in ("boot_load", "boot_garbage") for x in sites))
    if any(s in GEL_SITES for s in sites):
        sites = [s for s in sites if s != "rerank_with_gel"]
    if world.get("gel") is not None and r.chance(0.08):
        # garbage INSIDE the co-activation graph the rerank layer reads (a caller-supplied or hand-edited graph): weights that are
        # no numbers.  Like a foreign snapshot file this is content, not an exception; only completion is asserted for it
        sites = sites + ["gel_weights_garbage"]
    faults = []
    for s in sites:
        transient_ok = s in ("sidecar", "reflect_log", "quality_trace", "boot_load")
        f: Dict[str, Any] = {"site": s, "exc": r.choice(sorted(EXC_TYPES)),
                             "when": [r.randint(0, 2)] if (transient_ok and r.chance(0.4)) else "always"}
        if s == "boot_garbage":
            f["garbage"] = [r.choice(GARBAGE) for _ in range(r.randint(1, 2))]
            f["gseed"] = int(r.u64() % 100000)
        if s == "gel_weights_garbage":
            f["exc"], f["when"] = "content", "always"
            f["values"] = [r.choice(_BAD_WEIGHTS) for _ in range(r.randint(1, 3))]
        faults.append(f)
    # configuration that switches every optional subsystem ON (so each armed site is reachable)
    raw = E.valid_cfg(rng.stream("config"), ["t1", "t2", "t3", "t4"], p=0.3)
    raw.setdefault("t2", {})["sim_threshold"] = -1.0
    raw["t2"].pop("tiers", None)
    raw["graph"] = {"enabled": True, "coactivation_threshold": 0.0,
                    "merge": {"enabled": True, "min_size": 2, "min_avg_w": 0.3}, "split": {"enabled": True, "weak_edge_thresh": 0.3},
                    "promotion": {"enabled": True}}
    if world.get("gel") is not None:
        # a component that splits: two strong pairs joined by a weak bridge (so the split pass has a candidate)
        ge = world["gel"]["edges"]
        for a, b, w in (("s1", "s2", 0.9), ("s3", "s4", 0.9), ("s2", "s3", 0.05)):
            ge["%s→%s" % (a, b)] = {"id": "%s→%s" % (a, b), "src": a, "dst": b, "weight": w, "rel": "coact", "updated_at": None, "attrs": {}}
        for f in faults:
            if f["site"] == "gel_weights_garbage":
                for i, k in enumerate(sorted(ge)):
                    if i < len(f["values"]) or r.chance(0.3):
                        ge[k]["weight"] = copy.deepcopy(f["values"][i % len(f["values"])])
    raw["t2"]["hybrid"] = {"enabled": True, "edge_threshold": 0.0, "lambda_graph": 0.9}
    raw["t2"]["quality"] = {"enabled": True, "lexical": {"enabled": True}, "fusion": {"enabled": True, "alpha_semantic": 0.4},
                            "mmr": {"enabled": True, "lambda": 0.4}}
    raw.setdefault("t3", {})["allow_reflection"] = True
    raw["t3"]["reflection"] = {"backend": "rulebased", "summary_tokens": 12}
    raw.setdefault("t4", {})["enabled"] = True
    raw["t4"]["cache_bust_mode"] = "on-apply"
    raw["t4"]["snapshot_every_n_turns"] = 1
    names = [f["site"] for f in faults]
    if "llm_adapter" in names or "llm_fixture_missing" in names:
        raw["t3"]["backend"] = "llm"
        raw["t3"]["llm"] = {"provider": "fixture", "fixtures": {"enabled": True, "path": "/nonexistent/fixtures.jsonl"}}
    if "quality_trace" in names:
        raw["t2"]["quality"] = {"enabled": False, "shadow": True}
        raw["perf"] = {"enabled": True, "metrics": {"report_memory": True}}
    elif r.chance(0.35):
        # the metrics gate open: the T2 record then also carries the quality layers' own gauges (fusion mode, lexical hits, MMR picks)
        raw["perf"] = {"enabled": True, "metrics": {"report_memory": True}}
    ro = rng.stream("ops")
    agents = sorted(world["agents"])
    ops = [{"op": "turn", "agent": ro.choice(agents), "text": E.gen_text(ro), "turn_id": i, "now_ms": E.T0_MS + 1000 * i, "reflect": True}
           for i in range(r.randint(1, 4))]
    return {"world": world, "cfg": raw, "ops": ops, "faults": faults}


def _twin_cfg(raw: Dict[str, Any], faults: List[Dict[str, Any]]) -> Dict[str, Any]:
    raw = copy.deepcopy(raw)
    names = {f["site"] for f in faults}
    if names & {"gel_merge_candidates", "gel_apply_merge", "gel_split_candidates", "gel_apply_split", "gel_promote_clusters", "gel_apply_promotion"}:
        for k in ("merge", "split", "promotion"):
            raw["graph"][k] = {"enabled": False}
    if names & {"reflect", "reflect_write", "index_add"}:
        raw["t3"]["allow_reflection"] = False
    if names & {"llm_adapter", "llm_fixture_missing"}:
        raw["t3"]["backend"] = "rulebased"
    if "rerank_with_gel" in names or "gel_weights_garbage" in names:
        raw["t2"]["hybrid"] = {"enabled": False}
    # ("fuse" has no switch of its own: its twin is the same call handing its input back, see _run)
    if "mmr" in names and isinstance(raw["t2"].get("quality"), dict):
        # the MMR switch off, its subtree kept (the T2 record echoes mmr.lambda whenever the quality layer is on)
        raw["t2"]["quality"] = dict(raw["t2"]["quality"], mmr=dict(raw["t2"]["quality"].get("mmr") or {}, enabled=False))
    if "quality_trace" in names:
        raw["t2"]["quality"] = {"enabled": False, "shadow": False}
    if "invalidate" in names:
        raw["t4"]["cache_bust_mode"] = "none"
    return raw


_BAD_WEIGHTS: List[Any] = [None, "abc", "", [0.5], {"w": 1}, "0.5 or so"]


class _Store(InMemoryGraphStore):
    mode = "normal"

    def apply_deltas(self, gid, deltas):  # type: ignore[override]
        if self.mode == "raise":
            self.raised = getattr(self, "raised", 0) + 1
            raise EXC_TYPES[self.exc]()
        if self.mode == "idle":
            return {"edits": 0}
        return super().apply_deltas(gid, deltas)


def _run(program: Dict[str, Any], faulty: bool) -> Dict[str, Any]:
    faults = program.get("faults") or []
    names = {f["site"]: f for f in faults}
    raw = program["cfg"] if faulty else _twin_cfg(program["cfg"], faults)
    clock = SimClock(None, "steady")
    out: Dict[str, Any] = {"results": [], "exc": None, "fired": {}, "boot": []}
    with Scratch() as root:
        with E.EngineEnv(root, clock) as ee:
            store = _Store()
            if "store_apply" in names:
                store.mode = "raise" if faulty else "idle"
                store.exc = names["store_apply"]["exc"]
            run = E.EngineRun(program["world"], raw, ee, store=store)
            if faulty and "boot_garbage" in names:
                g = names["boot_garbage"]
                rr = Rng(int(g.get("gseed", 0))).stream("garbage")
                for kind in g.get("garbage", []):
                    n, data = _garbage(kind, rr)
                    p = os.path.join(ee.snap, n)
                    os.makedirs(os.path.dirname(p), exist_ok=True)
                    with open(p, "wb") as fh:
                        fh.write(data)
                out["fired"]["boot_garbage"] = len(g.get("garbage", []))
            # spy on the boot loader to learn whether it loaded something
            real_loader = core.load_latest_snapshot

            def loader_spy(ctx, state):
                try:
                    res = real_loader(ctx, state)
                except Exception as e:  # noqa: BLE001
                    out["boot"].append("raised:" + type(e).__name__)
                    raise
                out["boot"].append("loaded" if (res or {}).get("loaded") else "not-loaded")
                return res

            core.load_latest_snapshot = loader_spy
            # observation and decay have no switch of their own: their twin is the same call doing nothing
            spec = [f for f in faults if f["site"] in REGISTRY] if faulty else \
                [dict(f, idle=True) for f in faults if f["site"] in ("gel_observe", "gel_tick")] + \
                [dict(f, idle=True, idle_call=lambda q, items, cfg=None: (items, {})) for f in faults if f["site"] == "fuse"]
            try:
                with Sites(REGISTRY, spec) as sites:
                    for op in program["ops"]:
                        st = run.state
                        if op.get("reflect"):
                            st["_planner_reflection_flag"] = True
                        if faulty and "index_add" in names:
                            idx = st["memory_index"]
                            if "add" not in vars(idx):
                                f = names["index_add"]

                                def boom(ep, _f=f):
                                    out["fired"]["index_add"] = out["fired"].get("index_add", 0) + 1
                                    raise EXC_TYPES[_f["exc"]]()
                                idx.add = boom
                        if faulty and "invalidate" in names:
                            if st.get("_cache_mgr") is None:
                                # create the manager the way run_turn would, so that the site is armed from the first turn on
                                cc = (run.cfg.get("t4") or {}).get("cache") or {}
                                if bool(cc.get("enabled", True)):
                                    st["_cache_mgr"] = core.CacheManager(max_entries=int(cc.get("max_entries", 512)),
                                                                         ttl_sec=int(cc.get("ttl_sec", 600)))
                            cm = st.get("_cache_mgr")
                            if cm is not None and "invalidate_namespace" not in vars(cm):
                                f = names["invalidate"]

                                def boom2(ns, _f=f):
                                    out["fired"]["invalidate"] = out["fired"].get("invalidate", 0) + 1
                                    raise EXC_TYPES[_f["exc"]]()
                                cm.invalidate_namespace = boom2
                        try:
                            res = run.step(op)
                            out["results"].append(getattr(res, "line", None) if res is not None and hasattr(res, "line") else "<no TurnResult>")
                        except Exception as e:  # noqa: BLE001
                            import traceback
                            tb = traceback.extract_tb(e.__traceback__)
                            inner = [fr for fr in tb if "/clematis/" in fr.filename or "/configs/" in fr.filename]
                            where = inner[-1].name if inner else tb[-1].name
                            out["exc"] = {"type": type(e).__name__, "where": where, "msg": str(e)[:200], "turn": len(out["results"])}
                            break
                    for k, v in sites.fired.items():
                        out["fired"][k] = v
            finally:
                core.load_latest_snapshot = real_loader
            if getattr(store, "raised", 0):
                out["fired"]["store_apply"] = store.raised
            if "llm_fixture_missing" in names and faulty:
                out["fired"]["llm_fixture_missing"] = 1
            if "gel_weights_garbage" in names and faulty:
                out["fired"]["gel_weights_garbage"] = sum(1 for e in ((program["world"].get("gel") or {}).get("edges") or {}).values()
                                                          if not isinstance(e.get("weight"), (int, float)) or isinstance(e.get("weight"), bool))
            logs = E.read_dir(ee.logs)
            out["logs"] = {n: E.normalise_paths(logs.get(n, b""), root).decode("utf-8", "replace") for n in CANON}
    return out


def execute(program: Dict[str, Any]) -> Dict[str, Any]:
    out = _execute(program)
    faults = program.get("faults") or []
    if out["violations"] and len(faults) > 1:
        # attribute to the sites that reproduce the same effect alone
        effect = out["violations"][0]["sig"].split("|", 1)[-1]
        culprits = []
        for f in faults:
            single = dict(program, faults=[f])
            o2 = _execute(single)
            if any(v["sig"].split("|", 1)[-1] == effect for v in o2["violations"]):
                culprits.append((f["site"], single))
        if culprits:
            v = out["violations"][0]
            v["sig"] = "%s|%s" % ("+".join(sorted(c[0] for c in culprits)), effect)
            if len(culprits) == 1:
                v["program"] = culprits[0][1]
    return out


def _execute(program: Dict[str, Any]) -> Dict[str, Any]:
    violations: List[Dict[str, Any]] = []
    stats: Dict[str, int] = {"evaluations": 1}
    a = _run(program, True)
    b = _run(program, False)
    names = sorted(f["site"] for f in program.get("faults") or [])
    tag = "+".join(names) or "nofault"
    fired = {k: int(v) for k, v in a["fired"].items()}
    for s in names:
        stats["armed_" + s] = 1
    if b["exc"] is not None:
        violations.append({"cls": "twin-failed", "sig": "twin:%s@%s" % (b["exc"]["type"], b["exc"]["where"]),
                           "detail": "the fault-free twin itself raised %s" % (b["exc"],)})
    elif a["exc"] is not None:
        violations.append({"cls": "turn-aborted", "sig": "%s|raised:%s@%s" % (tag, a["exc"]["type"], a["exc"]["where"]),
                           "detail": "run_turn raised %s with armed sites %s (fired %s)" % (a["exc"], program.get("faults"), fired)})
    else:
        if "<no TurnResult>" in a["results"]:
            violations.append({"cls": "turn-aborted", "sig": "%s|no-result" % tag, "detail": "a turn returned no TurnResult"})
        boot_loaded = any(x == "loaded" for x in a["boot"])
        stats["boot_" + (a["boot"][0] if a["boot"] else "none").split(":")[0]] = 1
        if "fuse" in names:
            # the twin of a failing fusion hands the candidates back unchanged and so still counts as "fusion applied": the two
            # fields that merely echo the fusion CONFIGURATION in that case are not compared (every measured field is)
            def _strip(text: str) -> str:
                out = []
                for ln in text.splitlines():
                    try:
                        j = json.loads(ln)
                        for kk in ("t2q.fusion_mode", "t2q.alpha_semantic"):
                            j.pop(kk, None)
                            if isinstance(j.get("t2"), dict):
                                j["t2"].pop(kk, None)
                        out.append(json.dumps(j, sort_keys=False, ensure_ascii=False))
                    except Exception:  # noqa: BLE001
                        out.append(ln)
                return "\n".join(out) + ("\n" if text.endswith("\n") else "")
            for n in CANON:
                a["logs"][n], b["logs"][n] = _strip(a["logs"][n]), _strip(b["logs"][n])
        if "gel_weights_garbage" in names:
            stats["gel_weights_garbage_completed"] = 1
        elif not boot_loaded:
            for n in CANON:
                if a["logs"][n] != b["logs"][n]:
                    la, lb = a["logs"][n].splitlines(), b["logs"][n].splitlines()
                    field = "len"
                    pa = pb = ""
                    for x, y in zip(la, lb):
                        if x != y:
                            pa, pb = x, y
                            try:
                                jx, jy = json.loads(x), json.loads(y)
                                field = [k for k in sorted(set(jx) | set(jy)) if jx.get(k) != jy.get(k)][0]
                            except Exception:
                                field = "?"
                            break
                    if not la and lb:
                        field = "missing"
                    violations.append({"cls": "records-differ", "sig": "%s|%s:%s:%s" % (tag, "missing" if not la else "differs", n, field),
                                       "detail": "%s differs from the twin (subsystem off/idle): %s VS %s ; fired=%s" % (n, pa[:260], pb[:260], fired)})
                    break
        else:
            stats["boot_loaded_foreign"] = 1
    return {"violations": violations, "stats": stats, "faults": fired, "nontrivial": bool(sum(fired.values())),
            "key": E.jdigest(program), "sim_s": 0.0, "log": E.jdigest([a["logs"], a["results"]])}
