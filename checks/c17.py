"""C17 - scheduling is deterministic, starvation-free and budgets bind.

core  histories over the pure scheduler core: 1-4 agents, both policies, allowance 1-3, aging in {0,1,50,200}, clock advances
      (0, small, tier-crossing, backwards), next_turn + on_yield with the reset flag the pick demanded, optional queue
      rotation as the demo driver does.  Bounded liveness: every agent is picked within 2*(n-1)*m+1 selections.
orch  the orchestrator with scheduling on: budgets drawn per run; the simulated clock is advanced by a scripted cost inside
      every stage, so time-driven yields are explicit inputs of the run.
"""
from __future__ import annotations

import copy
import json
import types
from typing import Any, Dict, List, Optional

from vsim import use_repo

use_repo()

from vsim import engine as E  # noqa: E402
from vsim.clock import SimClock  # noqa: E402
from vsim.rng import Rng  # noqa: E402
from vsim.scratch import Scratch  # noqa: E402

import clematis.engine.orchestrator as orch  # noqa: E402
import clematis.engine.orchestrator.core as core  # noqa: E402
from clematis.engine.scheduler import init_scheduler_state, next_turn, on_yield  # noqa: E402
from clematis.engine.stages.t3 import deliberate as real_deliberate  # noqa: E402

PROPERTY = "C17"
LEVEL = "exploration"
RUNS = {"quick": 12000, "thorough": 200000}
RULE = ("one run = (core) a history of 10-60 selections with clock advances and optional queue rotation over 1-4 agents, or (orch) "
        "1-4 scheduled turns on a single-graph world with per-stage simulated costs and drawn budgets. non-trivial = (core) at least one "
        "RESET_CONSEC or aging-tier decision, (orch) at least one yield or clamped stage; distinct = digest of the program")
REAL = ["clematis/engine/scheduler.py:init_scheduler_state,next_turn,on_yield", "Orchestrator.run_turn slice bookkeeping (_derive_budgets, _should_yield)",
        "slice-cap clamps in t1_propagate, t2_semantic, deliberate"]
STUBS = ["ctx.now_ms (scheduler clock) and time.perf_counter (slice clock): SimClock, advanced by scripted per-stage costs"]
ASSUMPTIONS = [
    "every selection is followed by its yield bookkeeping (as the property states)",
    "T1 caps are compared on single-graph worlds: the stage clamps per graph and logs the sum",
    "whether an earlier boundary should already have yielded is not asserted (the property does not say so)",
]
SHRINK_FIELDS = ["ops"]


def generate(seed: int, tier: str) -> Dict[str, Any]:
    rng = Rng(seed)
    r = rng.stream("gen")
    if r.chance(0.55):
        n = r.randint(1, 4)
        agents = r.sample(["a", "b", "c", "d", "B", "aa"], n)
        ops = []
        for _ in range(r.randint(10, 60)):
            if r.chance(0.3):
                ops.append({"op": "clock", "ms": r.choice([0, 1, 10, 49, 50, 200, 1000, -100, -5000])})
            else:
                # what the slice reports as consumed when it yields: nothing, all-zero counters (a zero stage budget hit at T1
                # with nothing to propagate), or real work - the bookkeeping charges the turn all the same
                ops.append({"op": "pick", "rotate": r.chance(0.5),
                            "consumed": r.choice([{}, {}, {"ms": 0, "t1_iters": 0, "t1_pops": 0}, {"ms": 0}, {"ms": 12, "t1_pops": 3}, {"t2_k": 2, "ms": 1}])})
        return {"target": "core", "agents": agents, "policy": r.choice(["round_robin", "fair_queue"]), "mct": r.randint(1, 3),
                "aging_ms": r.choice([0, 1, 50, 200]), "ops": ops, "rotate_mode": r.choice(["never", "always", "per-op"])}
    world = E.gen_world(rng.stream("world"), n_agents=r.randint(1, 2), max_graphs=r.choice([1, 1, 2, 3]), odd_ids=False)
    raw = E.valid_cfg(rng.stream("config"), ["t1", "t2", "t3", "t4"], p=0.3)
    raw.setdefault("t2", {})["sim_threshold"] = r.choice([-1.0, 0.0])
    quantum = r.choice([1, 5, 20, 100])
    budgets = {"t1_pops": r.choice([None, 0, 1, 2, 5, 100]), "t1_iters": r.choice([0, 1, 2, 50]), "t2_k": r.choice([0, 1, 2, 64]),
               "t3_ops": r.choice([0, 1, 2, 3]), "wall_ms": quantum * r.choice([1, 2, 10, 100])}
    raw["scheduler"] = {"enabled": True, "policy": r.choice(["round_robin", "fair_queue"]), "quantum_ms": quantum, "budgets": budgets}
    agents = sorted(world["agents"])
    ro = rng.stream("ops")
    ops = []
    texts = [E.gen_text(ro) for _ in range(r.randint(1, 2))]
    for i in range(r.randint(1, 5)):
        if ops and ro.chance(0.4):
            # the budgets of the next slice differ from those of earlier ones (stage caches must not carry work across)
            k = ro.choice(["t1_pops", "t1_iters", "t2_k", "t3_ops"])
            ops.append({"op": "set_cfg", "path": ["scheduler", "budgets", k],
                        "value": ro.choice({"t1_pops": [None, 0, 1, 2, 100], "t1_iters": [0, 1, 50], "t2_k": [0, 1, 64], "t3_ops": [0, 1, 3]}[k])})
        ops.append({"op": "turn", "agent": ro.choice(agents), "text": ro.choice(texts), "turn_id": i, "now_ms": E.T0_MS + i * 1000,
                    "cost_ms": {s: ro.choice([0, 0, 1, 3, 10, 50, 500]) for s in ("T1", "T2", "T3", "T4", "Apply")}})
        if ro.chance(0.3):
            # the slice is presented again exactly as it was (what a driver does with a turn that yielded before Apply): the
            # version has not moved, so its retrieval is answered by the turn-level cache - the budget binds all the same
            again = dict(ops[-1], cost_ms={s: ro.choice([0, 0, 1, 3, 10, 50, 500]) for s in ("T1", "T2", "T3", "T4", "Apply")})
            ops.append(again)
    return {"target": "orch", "world": world, "cfg": raw, "ops": ops}


def _core(p: Dict[str, Any], stats: Dict[str, int]) -> List[Dict[str, Any]]:
    viol: List[Dict[str, Any]] = []
    now = {"ms": 1000}
    ctx = types.SimpleNamespace(now_ms=lambda: now["ms"])
    agents = list(p["agents"])
    n, m = len(agents), int(p["mct"])
    fair = {"max_consecutive_turns": m, "aging_ms": int(p["aging_ms"])}
    st = init_scheduler_state(agents, now_ms=now["ms"])
    bound = 2 * (n - 1) * m + 1
    last_pick: Dict[str, int] = {a: 0 for a in agents}
    sel = 0

    def bad(inv, detail):
        viol.append({"cls": "core", "sig": "core:%s:%s" % (inv, p["policy"]), "detail": detail})

    for oi, op in enumerate(p["ops"]):
        if op["op"] == "clock":
            now["ms"] += int(op["ms"])
            continue
        stats["evaluations"] = stats.get("evaluations", 0) + 1
        before = copy.deepcopy(st)
        a1, b1, r1 = next_turn(ctx, st, p["policy"], fair)
        if st != before:
            bad("next_turn-mutates-state", "op#%d" % oi)
        a2, _b2, r2 = next_turn(ctx, copy.deepcopy(before), p["policy"], fair)
        if (a1, r1) != (a2, r2):
            bad("not-deterministic", "op#%d: %s/%s vs %s/%s" % (oi, a1, r1, a2, r2))
        ctxs = "op#%d pick=%s reason=%s state=%s now=%d" % (oi, a1, r1, before, now["ms"])
        if a1 not in before["queue"]:
            bad("pick-not-queued", ctxs)
            break
        eligible = [a for a in before["queue"] if before["consec_turns"].get(a, 0) < m]
        if eligible:
            if a1 not in eligible:
                bad("picked-saturated-agent", ctxs)
            if r1 == "RESET_CONSEC":
                bad("reset-while-eligible", ctxs)
            if p["policy"] == "fair_queue" and int(p["aging_ms"]) > 0:
                tiers = {a: max(0, now["ms"] - before["last_ran_ms"][a]) // int(p["aging_ms"]) for a in eligible}
                best = max(tiers.values())
                want = min(a for a in eligible if tiers[a] == best)
                if len(set(tiers.values())) > 1:
                    stats["aging_decisions"] = stats.get("aging_decisions", 0) + 1
                if a1 != want:
                    bad("aging-tier", "expected %s (tiers %s); %s" % (want, tiers, ctxs))
            elif p["policy"] == "round_robin" and a1 != eligible[0]:
                bad("rr-not-first-eligible", ctxs)
        else:
            stats["resets"] = stats.get("resets", 0) + 1
            if a1 != min(before["queue"]) or r1 != "RESET_CONSEC":
                bad("reset-pick", "all saturated: expected lexicographic minimum %s with RESET_CONSEC; %s" % (min(before["queue"]), ctxs))
        on_yield(ctx, st, a1, dict(op.get("consumed") or {}), "QUANTUM_EXCEEDED", fair, reset=(r1 == "RESET_CONSEC"))
        if r1 == "RESET_CONSEC" and any(v != 0 for v in st["consec_turns"].values()):
            bad("reset-not-applied", "%s -> %s" % (ctxs, st["consec_turns"]))
        if r1 != "RESET_CONSEC" and st["consec_turns"][a1] != before["consec_turns"][a1] + 1:
            bad("consec-not-incremented", ctxs)
        if st["last_ran_ms"][a1] != now["ms"]:
            bad("last-ran-not-updated", ctxs)
        sel += 1
        for a in agents:
            if a != a1 and sel - last_pick[a] > bound:
                bad("starvation", "agent %s not selected for %d selections (bound %d = 2*(%d-1)*%d+1); %s" % (a, sel - last_pick[a], bound, n, m, ctxs))
        last_pick[a1] = sel
        rotate = {"never": False, "always": True, "per-op": bool(op.get("rotate"))}[p["rotate_mode"]]
        if rotate and p["policy"] == "round_robin":
            q = st["queue"]
            if a1 in q:
                q.remove(a1)
                q.append(a1)
        if viol:
            break
    return viol


_STAGE_ORDER = ["T1", "T2", "T3", "T4", "Apply"]
_STREAM_OF = {"T1": "t1.jsonl", "T2": "t2.jsonl", "T3": "t3_plan.jsonl", "T4": "t4.jsonl", "Apply": "apply.jsonl"}


def _orch(p: Dict[str, Any], stats: Dict[str, int]) -> List[Dict[str, Any]]:
    viol: List[Dict[str, Any]] = []
    clock = SimClock(None, "steady")
    cost = {"cur": {}}

    def bad(inv, detail):
        viol.append({"cls": "orch", "sig": "orch:%s" % inv, "detail": detail})

    def spend(stage):
        c = int(cost["cur"].get(stage, 0))
        cost["spent"] = cost.get("spent", 0) + c
        clock.advance(c * 1_000_000)

    with Scratch() as root:
        with E.EngineEnv(root, clock) as ee:
            run = E.EngineRun(p["world"], p["cfg"], ee)
            real_t1, real_t2, real_t4, real_apply = core.t1_propagate, core.t2_semantic, core.t4_filter, core.apply_changes

            def t1w(ctx, state, text):
                spend("T1")
                return real_t1(ctx, state, text)

            def t2w(ctx, state, text, t1):
                spend("T2")
                res = real_t2(ctx, state, text, t1)
                # the retrieval budget clamps the WORK done with the hits, not only the counter: residual graph nudges may come
                # from the first t2_k ranked hits only
                kcap = (getattr(ctx, "slice_budgets", None) or {}).get("t2_k")
                if kcap is not None and not int((res.metrics or {}).get("cache_hits", 0) or 0):
                    used = list(res.retrieved)[: max(0, int(kcap))]
                    texts_low = [(getattr(x, "text", "") or "").lower() for x in used]
                    labels = {}
                    for gid in state.get("active_graphs", []):
                        for nid, nd in state["store"].get_graph(gid).nodes.items():
                            labels.setdefault(nid, []).append((nd.label or "").lower())
                    for d in res.graph_deltas_residual or []:
                        nid = d.get("id")
                        if nid in labels and not any(lb and any(lb in t for t in texts_low) for lb in labels[nid]):
                            bad("t2-residual-from-hits-beyond-budget", "t2_k=%s: residual nudge of node %s (labels %s) although the %d used hits read %s; all hits %s" % (
                                kcap, nid, labels[nid], len(used), texts_low[:3], [(getattr(x, "text", "") or "")[:30] for x in res.retrieved][:6]))
                    if len(res.retrieved) > len(used):
                        stats["t2_binding_budget_calls"] = stats.get("t2_binding_budget_calls", 0) + 1
                return res

            def t3w(ctx, state, bundle):
                spend("T3")
                return real_deliberate(bundle)

            def t4w(*a):
                spend("T4")
                return real_t4(*a)

            def apw(*a):
                spend("Apply")
                return real_apply(*a)

            orch.t1_propagate, orch.t2_semantic, orch.t3_deliberate = t1w, t2w, t3w
            core.t3_deliberate = t3w
            core.t4_filter, core.apply_changes = t4w, apw
            try:
                budgets = dict((run.cfg.get("scheduler") or {}).get("budgets") or {})
                quantum = int((run.cfg.get("scheduler") or {}).get("quantum_ms", 20))
                for oi, op in enumerate(p["ops"]):
                    if op["op"] != "turn":
                        run.step(op)
                        budgets = dict((run.cfg.get("scheduler") or {}).get("budgets") or {})
                        continue
                    cost["cur"] = op.get("cost_ms") or {}
                    cost["spent"] = 0
                    before = {n: len(b.splitlines()) for n, b in E.read_dir(ee.logs).items()}
                    stats["evaluations"] = stats.get("evaluations", 0) + 1
                    run.step(op)
                    logs = E.read_dir(ee.logs)
                    new = {n: [json.loads(x) for x in b.decode("utf-8").split("\n")[:-1]][before.get(n, 0):] for n, b in logs.items()}
                    sched = new.get("scheduler.jsonl", [])
                    ctxs = "op#%d costs=%s budgets=%s quantum=%d" % (oi, cost["cur"], budgets, quantum)
                    t1r = (new.get("t1.jsonl") or [{}])[0]
                    # --- budgets clamp stage work ---
                    if budgets.get("t1_pops") is not None and t1r.get("pops", 0) > int(budgets["t1_pops"]):
                        bad("t1-pops-exceed-budget", "pops %s > %s; %s" % (t1r.get("pops"), budgets["t1_pops"], ctxs))
                    if budgets.get("t1_iters") is not None and t1r.get("iters", 0) > int(budgets["t1_iters"]):
                        bad("t1-layers-exceed-budget", "iters %s > %s; %s" % (t1r.get("iters"), budgets["t1_iters"], ctxs))
                    for t2r in new.get("t2.jsonl", []):
                        if budgets.get("t2_k") is not None and t2r.get("k_used", 0) > int(budgets["t2_k"]):
                            bad("t2-used-exceed-budget", "k_used %s > %s; %s" % (t2r.get("k_used"), budgets["t2_k"], ctxs))
                        if t2r.get("k_used", 0) < t2r.get("k_returned", 0):
                            stats["t2_clamped"] = stats.get("t2_clamped", 0) + 1
                    for pr in new.get("t3_plan.jsonl", []):
                        nops = sum(int(v) for v in (pr.get("ops_counts") or {}).values())
                        if budgets.get("t3_ops") is not None and nops > int(budgets["t3_ops"]):
                            bad("t3-ops-exceed-budget", "%d ops > %s; %s" % (nops, budgets["t3_ops"], ctxs))
                    if len(sched) > 1:
                        bad("several-yields-in-one-turn", "%s; %s" % (sched, ctxs))
                    # the retrieval budget as the T2 record itself reports it (independent of what the scheduler record says was
                    # consumed): hits used == t2_k exhausts the budget, and an exhausted budget ends the slice at that boundary
                    t2_first = (new.get("t2.jsonl") or [None])[0]
                    t2_exhausted = bool(t2_first) and budgets.get("t2_k") is not None and int(t2_first.get("k_used", -1)) == int(budgets["t2_k"])
                    if t2_exhausted:
                        stats["t2_budget_exhausted"] = stats.get("t2_budget_exhausted", 0) + 1
                        if (t2_first or {}).get("cache_hit"):
                            stats["t2_budget_exhausted_on_cache_hit"] = stats.get("t2_budget_exhausted_on_cache_hit", 0) + 1
                        if not sched:
                            bad("t2-budget-exhausted-without-yield", "k_used %s == t2_k %s (cache_hit=%s) and the slice ran on; %s" % (
                                t2_first.get("k_used"), budgets["t2_k"], t2_first.get("cache_hit"), ctxs))
                        elif sched[0].get("stage_end") == "T2":
                            ms0 = int((sched[0].get("consumed") or {}).get("ms", 0))
                            if not (budgets.get("wall_ms") is not None and ms0 >= int(budgets["wall_ms"])) and str(sched[0].get("reason")) != "BUDGET_T2_K":
                                bad("yield-reason-precedence:t2-budget", "k_used == t2_k (cache_hit=%s) but the slice yielded with %s; %s" % (
                                    t2_first.get("cache_hit"), sched[0].get("reason"), ctxs))
                    # the same for T1, from the T1 record itself: a propagation that used up its layer or pop budget exactly ends the
                    # slice at the T1 boundary, and the reason names that budget unless the wall budget is gone too
                    t1_ex = [k for k, f in (("t1_iters", "iters"), ("t1_pops", "pops"))
                             if budgets.get(k) is not None and t1r.get(f) is not None and int(t1r.get(f)) == int(budgets[k])]
                    if t1_ex and new.get("t1.jsonl"):
                        stats["t1_budget_exhausted"] = stats.get("t1_budget_exhausted", 0) + 1
                        if not sched or sched[0].get("stage_end") != "T1":
                            bad("t1-budget-exhausted-without-yield", "T1 record %s meets %s and the slice ran on (%s); %s" % (
                                {f: t1r.get(f) for f in ("iters", "pops")}, t1_ex, sched[:1], ctxs))
                        else:
                            ms0 = int((sched[0].get("consumed") or {}).get("ms", 0))
                            if ms0 >= quantum:
                                stats["t1_budget_exhausted_past_quantum"] = stats.get("t1_budget_exhausted_past_quantum", 0) + 1
                            if not (budgets.get("wall_ms") is not None and ms0 >= int(budgets["wall_ms"])) and \
                                    str(sched[0].get("reason")) not in ["BUDGET_" + k.upper() for k in t1_ex]:
                                bad("yield-reason-precedence:t1-budget", "T1 used up %s but the slice yielded with %s after %d ms; %s" % (
                                    t1_ex, sched[0].get("reason"), ms0, ctxs))
                    if not sched:
                        continue
                    stats["yields"] = stats.get("yields", 0) + 1
                    ev = sched[0]
                    stage = ev.get("stage_end")
                    stats["yield_" + str(ev.get("reason"))] = stats.get("yield_" + str(ev.get("reason")), 0) + 1
                    if stage not in _STAGE_ORDER:
                        bad("yield-not-at-stage-boundary", "%s; %s" % (ev, ctxs))
                        continue
                    for later in _STAGE_ORDER[_STAGE_ORDER.index(stage) + 1:]:
                        if new.get(_STREAM_OF[later]):
                            bad("later-stage-ran-after-yield", "yield at %s but %s has a record; %s" % (stage, _STREAM_OF[later], ctxs))
                    if new.get("health.jsonl"):
                        bad("later-stage-ran-after-yield", "yield at %s but health.jsonl has a record; %s" % (stage, ctxs))
                    cons = ev.get("consumed") or {}
                    ms = int(cons.get("ms", 0))
                    spent = int(cost["spent"])  # a yield ends the turn: everything spent so far was spent before it
                    if abs(ms - spent) > 1:
                        bad("consumed-ms-wrong", "consumed.ms=%d but the stages up to %s cost %d ms; %s" % (ms, stage, spent, ctxs))
                    wall_hit = budgets.get("wall_ms") is not None and ms >= int(budgets["wall_ms"])
                    bud_hits = [k for k in ("t1_iters", "t1_pops", "t2_k", "t3_ops") if budgets.get(k) is not None and cons.get(k) == budgets.get(k)]
                    q_hit = ms >= quantum
                    reason = str(ev.get("reason"))
                    if wall_hit:
                        want = ["WALL_MS"]
                    elif bud_hits:
                        want = ["BUDGET_" + k.upper() for k in bud_hits]
                    elif q_hit:
                        want = ["QUANTUM_EXCEEDED"]
                    else:
                        want = []
                    if reason not in want:
                        bad("yield-reason-precedence", "reason %s, expected one of %s for consumed %s; %s" % (reason, want, cons, ctxs))
                    tr = [x for x in new.get("turn.jsonl", [])]
                    if not tr or not tr[-1].get("yielded") or tr[-1].get("yield_reason") != reason:
                        bad("turn-record-disagrees", "turn.jsonl %s vs scheduler %s; %s" % (tr[-1:] if tr else None, ev, ctxs))
                    if viol:
                        break
            finally:
                core.t4_filter, core.apply_changes = real_t4, real_apply
    return viol


def execute(p: Dict[str, Any]) -> Dict[str, Any]:
    stats: Dict[str, int] = {"target_" + p["target"]: 1}
    if p["target"] == "core":
        viol = _core(p, stats)
        nontrivial = bool(stats.get("resets") or stats.get("aging_decisions"))
    else:
        viol = _orch(p, stats)
        nontrivial = bool(stats.get("yields") or stats.get("t2_clamped"))
    return {"violations": viol, "stats": stats, "faults": {"clock_scripted_cost": stats.get("yields", 0)}, "nontrivial": nontrivial,
            "key": E.jdigest(p), "sim_s": 0.0, "log": E.jdigest(viol)}
