"""C19 - reflection is gated, budgeted and cannot disturb the turn.

Turns over all gate combinations (allow_reflection x plan flag x dry run), both back ends (rule-based; LLM fixtures served by
the real FixtureLLMAdapter), caps incl. 0, token limits, a scripted simulated cost of the reflect call around the wall
budget, and faults in compute / index.add / missing index / telemetry.  Before every turn the state is deep-copied and a
twin executes that same turn on the copy with reflection off; a second twin runs the whole program under another wall clock.
"""
from __future__ import annotations

import copy
import dataclasses
import json
import os
from typing import Any, Dict, List, Optional

from vsim import use_repo

use_repo()

from vsim import engine as E  # noqa: E402
from vsim.buggify import EXC_TYPES  # noqa: E402
from vsim.clock import SimClock  # noqa: E402
from vsim.rng import Rng  # noqa: E402
from vsim.scratch import Scratch  # noqa: E402

import clematis.engine.orchestrator.core as core  # noqa: E402
import importlib  # noqa: E402

rmod = importlib.import_module("clematis.engine.stages.t3.reflect")
tpolicy = importlib.import_module("clematis.engine.stages.t3.policy")
import clematis.engine.orchestrator as orch  # noqa: E402
from clematis.adapters.llm import FixtureLLMAdapter, LLMAdapterError, _prompt_hash  # noqa: E402

PROPERTY = "C19"
LEVEL = "exploration"
RUNS = {"quick": 2500, "thorough": 40000}
RULE = ("one run = seeded world + config (reflection backend rulebased/llm-fixture, summary_tokens 0-128, ops_reflection 0-5, time budget) + "
        "1-4 turns, each with its own gate combination (allow, plan flag, dry run), simulated reflect cost and optional fault "
        "(reflect raises, index.add raises, index missing, telemetry raises, fixture missing); per-turn twin with reflection off from the "
        "same pre-state, and an other-clock twin. non-trivial = reflection ran and wrote, or was stopped by a gate/budget/fault while "
        "requested; distinct = digest of the program")
REAL = ["core._run_reflection_if_enabled, run_turn reflection write + telemetry blocks", "stages/t3/reflect.py (both back ends, _truncate_tokens)",
        "orchestrator/reflection.py:write_reflection_entries,_episode_id", "adapters/llm.py:FixtureLLMAdapter (real clipping; completions are "
        "registered for whatever prompt hash arrives)", "InMemoryIndex"]
STUBS = ["perf_counter/wall clock: SimClock; the reflect call is given a scripted simulated cost", "fault sites: reflect, index.add, "
         "memory index presence, log_t3_reflection", "fixture file contents: generated completions keyed by the prompt actually sent"]
ASSUMPTIONS = [
    "stage caches are off in this check so that the per-turn twin (same process) cannot be served from the main run's cache",
    "the per-turn comparison starts from the same pre-state; later turns legitimately differ once a reflection entry is in memory",
]
SHRINK_FIELDS = ["ops"]

COMPLETIONS = ["a short summary", "one\ttwo three\nfour five  six", "  leading and trailing  ", "ünï→cödé résumé 日本語 テスト", "",
               "w1 w2 w3 w4 w5 w6 w7 w8 w9 w10 w11 w12 w13 w14 w15 w16 w17 w18 w19 w20", "tab\tonly", "dots...and,punct!"]


def generate(seed: int, tier: str) -> Dict[str, Any]:
    rng = Rng(seed)
    r = rng.stream("gen")
    world = E.gen_world(rng.stream("world"), n_agents=r.randint(1, 2), bad_ts=False)
    raw = E.valid_cfg(rng.stream("config"), ["t1", "t2", "t3", "t4"], p=0.3)
    for sec in ("t1", "t2"):
        raw.setdefault(sec, {})["cache"] = {"enabled": False}
    raw.setdefault("t4", {})["cache"] = {"enabled": False}
    raw["t4"]["enabled"] = True if r.chance(0.85) else False
    raw.setdefault("t2", {})["sim_threshold"] = -1.0
    backend = r.choice(["rulebased", "rulebased", "llm"])
    raw.setdefault("t3", {})["reflection"] = {"backend": backend, "summary_tokens": r.choice([0, 1, 2, 5, 128]), "embed": r.chance(0.7),
                                             "topk_snippets": r.choice([0, 1, 3])}
    raw["scheduler"] = {"budgets": {"ops_reflection": r.choice([0, 1, 5]), "time_ms_reflection": r.choice([1, 50, 6000])}}
    if r.chance(0.3):
        # the scheduler on, with budgets no turn can exhaust (slices are counted on the context)
        raw["scheduler"].update({"enabled": True, "quantum_ms": 10**9})
        raw["scheduler"]["budgets"]["wall_ms"] = 2 * 10**9
    if backend == "llm":
        raw["t3"]["llm"] = {"provider": "fixture", "fixtures": {"enabled": True, "path": "FIXTURE_PATH"}}
    ro = rng.stream("ops")
    agents = sorted(world["agents"])
    ops = []
    for i in range(r.randint(1, 4)):
        ops.append({"op": "turn", "agent": ro.choice(agents), "text": E.gen_text(ro), "turn_id": i, "now_ms": E.T0_MS + i * 60_000,
                    "allow": ro.chance(0.75), "plan_flag": ro.chance(0.8), "dry_run": ro.chance(0.15),
                    "cost_ms": ro.choice([0, 0, 1, 49, 50, 51, 7000]),
                    "fault": ro.weighted([(None, 6), ("reflect", 1), ("index_add", 1), ("index_missing", 1), ("telemetry", 1), ("fixture_missing", 2), ("fixture_gone", 1), ("fixture_torn", 1)]),
                    "exc": ro.choice(sorted(EXC_TYPES)), "completion": ro.choice(COMPLETIONS), "prior_read": ro.chance(0.5),
                    "overproduce": ro.choice([0, 0, 0, 2, 3, 7])})
    if ro.chance(0.12):
        # the plan comes from the LLM planner through the policy facade (select_policy / run_policy): whether THIS turn's plan asks
        # for reflection is what the planner answered this turn - also when the answer is a fallback (adapter error, invalid
        # output) that says nothing about reflection. Nobody sets the request on the state by hand in these programs.
        for o in ops:
            o["planner_says"] = ro.choice(["reflect", "reflect", "no", "fallback", "fallback"])
            o["plan_flag"] = o["planner_says"] == "reflect"
    if ro.chance(0.12):
        # a driver that hands its clock over instead of a number
        for o in ops:
            o["now_ms_callable"] = True
    if ro.chance(0.3):
        # one context object kept by the driver across turns
        for o in ops[1:]:
            o["reuse_ctx"] = True
    if backend == "llm" and ro.chance(0.5):
        # the same prompt twice (same agent, turn id and text): answered once, then the record vanishes from the file at the same path
        src = dict(ro.choice(ops))
        src.update({"allow": True, "plan_flag": True, "dry_run": False, "fault": None, "cost_ms": 0})
        again = dict(src, fault=ro.choice(["fixture_missing", "fixture_missing", "fixture_gone", "fixture_torn"]))
        ops = ops + [src, again]
    return {"world": world, "cfg": raw, "ops": ops, "other_clock": {"profile": "wallonly", "offset_days": r.choice([1, 400, -400])}}


class _Probe(FixtureLLMAdapter):
    """Learns the prompt the engine is about to send (the fixture file is keyed by its hash), then declines to answer."""
    seen: Dict[str, str] = {}

    def __init__(self, path):  # the probe never reads the file
        self._map = {}

    def generate(self, prompt, max_tokens, temperature):
        _Probe.seen["prompt"] = prompt
        raise LLMAdapterError("probe")


def _lines(path: str) -> List[Dict[str, Any]]:
    try:
        with open(path, "rb") as fh:
            return [json.loads(x) for x in fh.read().decode("utf-8").split("\n")[:-1]]
    except FileNotFoundError:
        return []


def _run(program: Dict[str, Any], clock: SimClock, stats: Optional[Dict[str, int]], do_twin: bool) -> Dict[str, Any]:
    viol: List[Dict[str, Any]] = []
    entries_all: List[Any] = []

    def bad(inv, detail):
        if not any(v["sig"] == inv for v in viol):
            viol.append({"cls": "reflection", "sig": inv, "detail": detail})

    saved_fixture = rmod.FixtureLLMAdapter
    real_reflect = rmod.reflect
    real_log = core.log_t3_reflection
    with Scratch("main", "twin") as root:
        with E.EngineEnv(root, clock) as ee:
            fx = os.path.join(root, "fixtures.jsonl")
            open(fx, "w").close()
            raw = json.loads(json.dumps(program["cfg"]).replace("FIXTURE_PATH", fx))
            run = E.EngineRun(program["world"], raw, ee)
            twin_logs = os.path.join(root, "twin", "logs")
            twin_snap = os.path.join(root, "twin", "snap")
            os.makedirs(twin_logs, exist_ok=True)
            calls = {"reflect": 0}
            cur: Dict[str, Any] = {}

            fixture_records: Dict[str, str] = {}

            def write_fixture_file(bundle, cfg_root, embedder):
                """The fixture file is the LLM peer's storage: the REAL FixtureLLMAdapter reads it from disk on every
                reflection.  A probe pass learns the prompt; the file at the same path is then rewritten with (or,
                for the fault kinds, without) the record, keeping the records of earlier turns."""
                _Probe.seen.clear()
                rmod.FixtureLLMAdapter = _Probe
                try:
                    real_reflect(bundle, cfg_root, embedder=None)
                except Exception:  # noqa: BLE001
                    pass
                finally:
                    rmod.FixtureLLMAdapter = saved_fixture
                prompt = _Probe.seen.get("prompt")
                if prompt is None:
                    return
                h = _prompt_hash(prompt)
                fault = cur.get("fault")
                if fault in ("fixture_missing", "fixture_torn") and cur.get("prior_read"):
                    # history on the peer's storage: the record WAS there a moment ago and another reader in this process
                    # (planner, an earlier reflection) parsed the file then; now it is rewritten at the same path
                    with open(fx, "w", encoding="utf-8") as fh:
                        for k2, v2 in sorted(dict(fixture_records, **{h: cur.get("completion", "x") or "stale"}).items()):
                            fh.write(json.dumps({"prompt_hash": k2, "completion": v2}, ensure_ascii=False) + "\n")
                    try:
                        saved_fixture(fx)
                    except Exception:  # noqa: BLE001
                        pass
                if fault == "fixture_missing":
                    fixture_records.pop(h, None)
                else:
                    fixture_records[h] = cur.get("completion", "x")
                if fault == "fixture_gone":
                    if os.path.exists(fx):
                        os.unlink(fx)
                    return
                with open(fx, "w", encoding="utf-8") as fh:
                    for k2 in sorted(fixture_records):
                        fh.write(json.dumps({"prompt_hash": k2, "completion": fixture_records[k2]}, ensure_ascii=False) + "\n")
                    if fault == "fixture_torn":
                        fh.write('{"prompt_hash": "' + h[:10])

            def reflect_wrapper(bundle, cfg_root, embedder=None):
                calls["reflect"] += 1
                clock.advance(int(cur.get("cost_ms", 0)) * 1_000_000)
                if cur.get("fault") == "reflect":
                    raise EXC_TYPES[cur["exc"]]()
                if str((((cfg_root.get("t3") or {}).get("reflection")) or {}).get("backend", "")) == "llm":
                    write_fixture_file(bundle, cfg_root, embedder)
                res = real_reflect(bundle, cfg_root, embedder=embedder)
                k = int(cur.get("overproduce") or 0)
                if k:
                    # a reflect stage (the orchestrator lets one be plugged in) that does not cap itself: the writer's own
                    # cap is then the one that has to hold
                    limit = int(((cfg_root.get("t3") or {}).get("reflection") or {}).get("summary_tokens", 128))
                    base = dict(res.memory_entries[0]) if res.memory_entries else {
                        "owner": str(getattr(bundle.ctx, "agent_id", "a")), "ts": getattr(bundle.ctx, "now_iso", None) or getattr(bundle.ctx, "now", None),
                        "text": " ".join((res.summary or "extra").split()[:max(0, limit)]), "tags": ["reflection"], "kind": "summary"}
                    res = dataclasses.replace(res, memory_entries=[dict(base) for _ in range(k)])
                    if stats is not None:
                        stats["overproducing_reflect"] = stats.get("overproducing_reflect", 0) + 1
                return res

            def log_wrapper(*a, **k):
                if cur.get("fault") == "telemetry":
                    raise EXC_TYPES[cur["exc"]]()
                return real_log(*a, **k)

            rmod.reflect = reflect_wrapper
            core.log_t3_reflection = log_wrapper
            cur_planner: Dict[str, Any] = {"says": None}
            saved_delib = (getattr(orch, "t3_deliberate", None), getattr(core, "t3_deliberate", None), tpolicy.plan_with_llm)

            def scripted_plan_with_llm(ctx, state, cfg):
                says = cur_planner["says"]
                if says == "fallback":
                    return {"plan": [], "rationale": "fallback: invalid llm output"}
                return {"plan": ["say something"], "rationale": "scripted", "reflection": says == "reflect"}

            def facade_deliberate(ctx, state, bundle):
                # what stages/t3/core.py:t3_pipeline does with the bundle: plan through the policy layer; the request for
                # reflection travels on the state, the Plan handed on requests nothing by itself
                handle = {"name": "llm", "meta": {}}
                tpolicy.run_policy(handle, bundle, bundle.get("cfg", {}) if isinstance(bundle, dict) else {}, ctx, state=state)
                from clematis.engine.types import Plan
                return Plan(version="t3-plan-v1", reflection=False, ops=[], request_retrieve=None)

            tpolicy.plan_with_llm = scripted_plan_with_llm
            try:
                for oi, op in enumerate(program["ops"]):
                    st = run.state
                    run.step({"op": "set_cfg", "path": ["t3", "allow_reflection"], "value": bool(op["allow"])})
                    if op.get("planner_says"):
                        cur_planner["says"] = op["planner_says"]
                        orch.t3_deliberate = facade_deliberate
                        core.t3_deliberate = facade_deliberate
                    else:
                        st["_planner_reflection_flag"] = bool(op["plan_flag"])
                    cfg_now = run.cfg
                    pre = copy.deepcopy(st) if do_twin else None
                    cur.clear()
                    cur.update({"cost_ms": op.get("cost_ms", 0), "fault": op.get("fault"), "exc": op.get("exc", "ValueError"), "completion": op.get("completion", "x"),
                                "prior_read": bool(op.get("prior_read")), "overproduce": op.get("overproduce", 0)})
                    idx = st["memory_index"]
                    if op.get("fault") == "index_add":
                        def boom(ep, _e=op.get("exc", "ValueError")):
                            raise EXC_TYPES[_e]()
                        idx.add = boom
                    saved_idx = None
                    if op.get("fault") == "index_missing":
                        saved_idx = st.pop("memory_index")
                    before_eps = list(getattr(idx, "_eps", []))
                    calls["reflect"] = 0
                    lb = {n: len(_lines(os.path.join(ee.logs, n))) for n in ("t1.jsonl", "t2.jsonl", "t4.jsonl", "apply.jsonl", "t3_reflection.jsonl")}
                    top = dict(op)
                    if op.get("dry_run"):
                        top["ctx"] = {"_dry_run_until_t4": True}
                    try:
                        res = run.step(top)
                    except Exception as e:  # noqa: BLE001
                        bad("turn-raised:%s" % type(e).__name__, "op#%d %s: %r" % (oi, {k: op[k] for k in ("allow", "plan_flag", "dry_run", "fault")}, e))
                        break
                    finally:
                        if "add" in vars(idx):
                            del idx.add
                        if saved_idx is not None:
                            st["memory_index"] = saved_idx
                    new_eps = [e for e in getattr(idx, "_eps", []) if e not in before_eps]
                    refl_lines = _lines(os.path.join(ee.logs, "t3_reflection.jsonl"))[lb["t3_reflection.jsonl"]:]
                    rcfg = (cfg_now.get("t3") or {}).get("reflection") or {}
                    limit = int(rcfg.get("summary_tokens", 128))
                    budgets = (cfg_now.get("scheduler") or {}).get("budgets") or {}
                    cap = int(budgets.get("ops_reflection", 5))
                    wall = budgets.get("time_ms_reflection")
                    gate_open = bool(op["allow"]) and bool(op["plan_flag"]) and not bool(op.get("dry_run"))
                    ctxs = "op#%d gate(allow=%s, plan=%s, dry=%s) backend=%s limit=%d cap=%d wall=%s cost=%s fault=%s" % (
                        oi, op["allow"], op["plan_flag"], op.get("dry_run"), rcfg.get("backend"), limit, cap, wall, op.get("cost_ms"), op.get("fault"))
                    if stats is not None:
                        stats["evaluations"] = stats.get("evaluations", 0) + 1
                        stats["gate_open" if gate_open else "gate_closed"] = stats.get("gate_open" if gate_open else "gate_closed", 0) + 1
                    if not gate_open:
                        if calls["reflect"]:
                            bad("gate-closed:computed", ctxs)
                        if new_eps:
                            bad("gate-closed:wrote-memory", "%s wrote %d entries" % (ctxs, len(new_eps)))
                        if refl_lines:
                            bad("gate-closed:logged", ctxs)
                    else:
                        if len(new_eps) > cap:
                            bad("cap-exceeded", "%s wrote %d entries" % (ctxs, len(new_eps)))
                        for e in new_eps:
                            ntok = len(str(e.get("text", "")).split())
                            if ntok > limit:
                                bad("summary-over-token-limit", "%s summary has %d whitespace tokens: %r" % (ctxs, ntok, e.get("text")))
                            entries_all.append([oi, e.get("id"), e.get("ts"), e.get("text")])
                        over = wall is not None and int(op.get("cost_ms", 0)) > int(wall)
                        failing = op.get("fault") in ("reflect", "index_add", "index_missing") or over or \
                            (rcfg.get("backend") == "llm" and (op.get("fault") in ("fixture_missing", "fixture_gone", "fixture_torn") or op.get("completion", "x").strip() == "" or not ((cfg_now["t3"].get("llm") or {}).get("fixtures") or {}).get("enabled")))
                        if failing and new_eps:
                            bad("wrote-despite-failure", "%s wrote %d entries" % (ctxs, len(new_eps)))
                        if stats is not None:
                            if new_eps:
                                stats["reflection_writes"] = stats.get("reflection_writes", 0) + len(new_eps)
                            if over:
                                stats["over_budget"] = stats.get("over_budget", 0) + 1
                            if failing:
                                stats["failing_reflections"] = stats.get("failing_reflections", 0) + 1
                    # ---- per-turn twin with reflection off, from the same pre-state ----
                    if do_twin and pre is not None:
                        main_new = {n: _lines(os.path.join(ee.logs, n))[lb[n]:] for n in ("t1.jsonl", "t2.jsonl", "t4.jsonl", "apply.jsonl")}
                        traw = copy.deepcopy(run.raw_cfg)
                        E._set_path(traw, ["t3", "allow_reflection"], False)
                        E._set_path(traw, ["t4", "snapshot_dir"], twin_snap)
                        tcfg = E.make_cfg(traw)
                        tb = {n: len(_lines(os.path.join(twin_logs, n))) for n in main_new}
                        os.environ["CLEMATIS_LOG_DIR"] = twin_logs
                        try:
                            pre["active_graphs"] = list(program["world"]["agents"].get(op["agent"], []))
                            tctx = E.make_ctx(tcfg, op["agent"], op["turn_id"], op["now_ms"])
                            if op.get("now_ms_callable"):
                                E.hand_over_clock(tctx, op["now_ms"])
                            if op.get("dry_run"):
                                tctx._dry_run_until_t4 = True
                            cur["fault"] = None
                            tres = E.orch.run_turn(tctx, pre, op["text"])
                        finally:
                            os.environ["CLEMATIS_LOG_DIR"] = ee.logs
                        twin_new = {n: _lines(os.path.join(twin_logs, n))[tb[n]:] for n in main_new}
                        for n in main_new:
                            a = json.dumps(main_new[n], sort_keys=True).replace(ee.snap, "<SNAP>")
                            b = json.dumps(twin_new[n], sort_keys=True).replace(twin_snap, "<SNAP>")
                            if a != b:
                                bad("disturbs-turn:" + n, "%s: with reflection %s VS reflection off %s" % (ctxs, a[:220], b[:220]))
                        if getattr(res, "line", None) != getattr(tres, "line", None):
                            bad("disturbs-turn:utterance", "%s: %r vs %r" % (ctxs, getattr(res, "line", None), getattr(tres, "line", None)))
                    if viol:
                        break
            finally:
                rmod.FixtureLLMAdapter = saved_fixture
                rmod.reflect = real_reflect
                core.log_t3_reflection = real_log
                tpolicy.plan_with_llm = saved_delib[2]
                for mod, val in ((orch, saved_delib[0]), (core, saved_delib[1])):
                    if val is None:
                        try:
                            delattr(mod, "t3_deliberate")
                        except AttributeError:
                            pass
                    else:
                        mod.t3_deliberate = val
    return {"viol": viol, "entries": entries_all}


def execute(program: Dict[str, Any]) -> Dict[str, Any]:
    stats: Dict[str, int] = {}
    a = _run(program, SimClock(None, "steady"), stats, True)
    viol = list(a["viol"])
    if not viol:
        oc = program["other_clock"]
        b = _run(program, SimClock(Rng(7).stream("clock"), oc["profile"], wall0_s=1_700_000_000.0 + 86400.0 * oc["offset_days"]), None, False)
        # the other clock changes elapsed times, so budget outcomes may differ; ids/timestamps of entries written in BOTH runs must agree
        ea = {(e[0]): e for e in a["entries"]}
        eb = {(e[0]): e for e in b["entries"]}
        for k in sorted(set(ea) & set(eb)):
            if ea[k] != eb[k]:
                viol.append({"cls": "reflection", "sig": "id-or-timestamp-depends-on-wall-clock",
                             "detail": "turn op#%s: %s under the steady clock, %s under %s" % (k, ea[k], eb[k], oc)})
                break
    if not viol and any(op.get("reuse_ctx") for op in program["ops"]):
        # id and timestamp are functions of agent, turn, slot and text (and the turn's logical time): a driver that keeps one
        # context object must get the entries a driver with a fresh context per turn gets
        fresh = dict(program, ops=[{k: v for k, v in op.items() if k != "reuse_ctx"} for op in program["ops"]])
        f = _run(fresh, SimClock(None, "steady"), None, False)
        ea = {(e[0], e[3]): e for e in a["entries"]}
        ef = {(e[0], e[3]): e for e in f["entries"]}
        for k in sorted(set(ea) & set(ef), key=repr):
            if ea[k] != ef[k]:
                viol.append({"cls": "reflection", "sig": "id-or-timestamp-depends-on-context-history",
                             "detail": "turn op#%s: %s with one context kept across turns, %s with a fresh context per turn" % (k[0], ea[k], ef[k])})
                break
        stats["kept_context_runs"] = stats.get("kept_context_runs", 0) + 1
    if not viol and any(op.get("now_ms_callable") for op in program["ops"]):
        # with a clock handed over, how often the engine reads it depends on what else is switched on (the scheduler reads it at
        # every stage boundary): an entry's time stamp must not
        flipped = copy.deepcopy(program)
        sc = flipped["cfg"].setdefault("scheduler", {})
        if sc.get("enabled"):
            sc["enabled"] = False
        else:
            sc.update({"enabled": True, "quantum_ms": 10**9})
            sc.setdefault("budgets", {})["wall_ms"] = 2 * 10**9
        g = _run(flipped, SimClock(None, "steady"), None, False)
        ea = {(e[0], e[3]): e for e in a["entries"]}
        eg = {(e[0], e[3]): e for e in g["entries"]}
        for k in sorted(set(ea) & set(eg), key=repr):
            if ea[k] != eg[k]:
                viol.append({"cls": "reflection", "sig": "id-or-timestamp-depends-on-clock-traffic",
                             "detail": "turn op#%s: %s ; with the scheduler %s: %s" % (k[0], ea[k], "off" if program["cfg"].get("scheduler", {}).get("enabled") else "on", eg[k])})
                break
        stats["callable_clock_runs"] = stats.get("callable_clock_runs", 0) + 1
    nontrivial = bool(stats.get("reflection_writes") or stats.get("failing_reflections") or stats.get("gate_closed"))
    faults = {"over_budget": stats.get("over_budget", 0), "failing": stats.get("failing_reflections", 0)}
    for op in program["ops"]:
        if op.get("fault"):
            faults["fault_" + op["fault"]] = faults.get("fault_" + op["fault"], 0) + 1
    return {"violations": viol, "stats": stats, "faults": faults, "nontrivial": nontrivial, "key": E.jdigest(program), "sim_s": 0.0,
            "log": E.jdigest([viol, a["entries"]])}
