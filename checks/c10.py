"""C10 - the agent batch driver commits exactly like a sequential loop.

contract  a generated turn function that honours the documented dry-run contract (emits arbitrary log payloads on arbitrary
          streams in the compute phase, stashes deltas/utterance; in non-dry mode applies and logs apply.jsonl as core does) is
          installed the way the repository's own tests do; the REAL _run_agents_parallel_batch, staging, LogMux and
          apply_changes run over a recording store; the schedule that exists here - where back-pressure drains fall - is
          varied through the staging byte limit (1 byte .. 32 MiB), the worker limit and the batch shape.
real      the real stage pipeline through the driver on per-agent disjoint graphs versus run_turn per agent on a cloned world.
"""
from __future__ import annotations

import copy
import json
import os
import types
from typing import Any, Dict, List, Optional

from vsim import use_repo

use_repo()

from vsim import engine as E  # noqa: E402
from vsim.clock import SimClock  # noqa: E402
from vsim.rng import Rng  # noqa: E402
from vsim.scratch import Scratch  # noqa: E402

import clematis.engine.orchestrator as orch  # noqa: E402
import clematis.engine.orchestrator.core as core  # noqa: E402
import clematis.engine.orchestrator.parallel as opar  # noqa: E402
from clematis.engine.util import io_logging as IOL  # noqa: E402
from clematis.engine.types import ProposedDelta  # noqa: E402
from clematis.io.log import append_jsonl  # noqa: E402

PROPERTY = "C10"
LEVEL = "exploration"
RUNS = {"quick": 3000, "thorough": 50000}
RULE = ("one run = a batch of 1-6 agents with generated graph sets (arbitrary overlap), per-agent compute behaviour (0-6 log records of 1 B..40 KiB "
        "on streams t1/t2/t3_plan/t3_dialogue/t4/custom, 0-3 deltas, utterance), worker limit 2-8, snapshot cadence, and THREE staging byte "
        "limits (1, a mid value, 32 MiB); driver output (results, per-file log lines, store hand-offs, version, snapshot files) is compared with "
        "the sequential loop over the picked agents. non-trivial = at least two agents were picked and a back-pressure drain happened under "
        "some limit; distinct = digest of the program")
REAL = ["orchestrator/parallel.py:_run_agents_parallel_batch,_select_independent_batch,_run_turn_compute,_sort_turn_buffers", "LogMux capture",
        "io_logging.LogStager + default_key_for", "apply_changes + write_snapshot", "io.log append path"]
STUBS = ["Orchestrator.run_turn: generated contract-honouring turn function (contract arm)", "graph store: recording double", "clock: SimClock",
         "enable_staging seam: byte limit chosen by the run"]
ASSUMPTIONS = ["the reference is the driver's own sequential fallback semantics: one run_turn per picked agent, in task order, with the agent's own ctx",
               "the compute loop of the driver is sequential today, so 'order in which compute phases finish' is fixed; the varied schedule is where "
               "back-pressure drains fall"]
SHRINK_FIELDS = ["agents"]

STREAMS = ["t1.jsonl", "t2.jsonl", "t3_plan.jsonl", "t3_dialogue.jsonl", "t4.jsonl", "custom.jsonl"]
GRAPHS = ["G1", "G2", "G3", "G4", "G5"]


def generate(seed: int, tier: str) -> Dict[str, Any]:
    rng = Rng(seed)
    r = rng.stream("gen")
    if r.chance(0.12):
        world = E.gen_world(rng.stream("world"), n_agents=r.randint(2, 3), disjoint=True, max_graphs=3, bad_ts=False)
        raw = E.valid_cfg(rng.stream("config"), ["t1", "t2", "t3", "t4"], p=0.3)
        return {"target": "real", "world": world, "cfg": raw, "workers": r.randint(2, 4), "texts": [E.gen_text(rng.stream("ops")) for _ in range(3)], "turn_id": r.randint(0, 5)}
    n = r.randint(1, 6)
    names = r.sample(["A", "B", "C", "D", "E", "F"], n)
    agents = []
    for a in names:
        logs = []
        for i in range(r.randint(0, 6)):
            payload = {"agent": a, "i": i, "ms": round(r.uniform(0, 9), 3), "msg": r.choice(["x", "ünï", "line\nbreak"])}
            if r.chance(0.15):
                payload["blob"] = "b" * r.choice([300, 5000, 40000])
            if r.chance(0.2):
                payload["stats"] = {"n": r.randint(0, 9)}
            if r.chance(0.1):
                payload["items"] = [r.randint(0, 9)]
            if r.chance(0.15):
                # containers two and three levels below the record (per-graph totals, lists inside them)
                payload["deep"] = {"per_graph": {"g1": {"seen": [r.randint(0, 9)], "n": r.randint(0, 9)}}, "rows": [[r.randint(0, 9)], {"k": [1]}]}
            logs.append({"stream": r.choice(STREAMS), "payload": payload})
            if r.chance(0.12):
                logs.append(copy.deepcopy(logs[-1]))   # the same record logged twice in a row (a heartbeat, a retried emit): two lines
        if r.chance(0.2):
            # a record that names no agent, the same from every agent that logs it (a status line on a quiet stream)
            logs.insert(r.randint(0, len(logs)), {"stream": r.choice(["health.jsonl", "t2.jsonl"]), "payload": {"code": "OK", "msg": "x"}})
        agents.append({"id": a, "graphs": sorted(r.sample(GRAPHS, r.randint(0, 3))), "logs": logs, "text": E.gen_text(r),
                       # how the agent's graph set is declared in the state (the driver accepts several forms)
                       "decl": r.choice(["gba", "gba", "agents", "both", "meta_plus_gba", "agents_obj"]),
                       "deltas": [{"id": "n:%s%d" % (a, j), "delta": r.choice([0.1, -0.2, 0.3])} for j in range(r.randint(0, 3))],
                       "utter": r.choice(["", "hello", "reply from %s" % a])})
    if len(agents) >= 2 and r.chance(0.12):
        # the same agent listed twice in one batch: its second task overlaps the already selected first one
        dup = dict(agents[0], text=E.gen_text(r) + " again", utter="second task of %s" % agents[0]["id"],
                   deltas=[{"id": "n:%s_second" % agents[0]["id"], "delta": 0.7}])
        agents.insert(r.randint(1, len(agents)), dup)
    return {"target": "contract", "agents": agents, "workers": r.randint(2, 8), "limits": [1, r.choice([60, 200, 1000, 6000]), 32 * 1024 * 1024],
            "every": r.choice([1, 1, 2, 3]), "turn_id": r.choice([0, 1, 2, 6, "7"]), "bust": r.choice(["none", "on-apply"]),
            # the T4 kill switch: a turn then neither applies nor logs T4 / apply records, in a loop and through the driver alike
            "t4_enabled": not r.chance(0.15),
            # the state as an object with attributes (what the read-only snapshot of the compute phase freezes) or as a plain dict;
            # a registry on it whose insertion order is not its sorted order, which some turns read and log
            "state_style": r.choice(["dict", "dict", "attr", "attr"]), "registry": r.sample(["n4", "n1", "n3", "n2", "B", "a"], r.randint(2, 5)),
            "readers": sorted(a["id"] for a in agents if r.chance(0.3)),
            # a driver context that carries no turn id at all
            "no_turn_id": r.chance(0.06), "ctx_style": r.choice(["both", "both", "cfg_only"]),
            "read_how": r.choice(["attr", "attr", "subscript", "iterate"]),
            # ... or one whose turn id is there and is None
            "turn_id_none": r.chance(0.05),
            # compute phases that report the shared surface graph among the graphs they touched (a report, not a declaration)
            "touched_shared": r.chance(0.25)}


class _AState(dict):
    """Engine state with attribute access (state.graphs_by_agent ...), as the engine's own State objects offer."""

    def __getattr__(self, name):
        try:
            return self[name]
        except KeyError:
            raise AttributeError(name)

    def __setattr__(self, name, value):
        self[name] = value


class _Store:
    """Recording store with a weights map (so snapshots export something)."""

    def __init__(self):
        self.w: Dict[Any, float] = {}
        self.calls: List[Any] = []

    def apply_deltas(self, gid, deltas):
        ds = list(deltas)
        self.calls.append([(getattr(d, "target_id", None), float(getattr(d, "delta", 0.0))) for d in ds])
        for d in ds:
            k = (d.target_kind, d.target_id, d.attr)
            self.w[k] = self.w.get(k, 0.0) + float(d.delta)
        return {"edits": len(ds), "clamps": 0}


def _mk_stub(spec_by_agent: Dict[str, Dict[str, Any]], touched_shared: bool = False):
    def stub(self, ctx, state, text):
        # what a turn does is a function of (agent, input text): two tasks of one agent are different turns
        spec = spec_by_agent.get((str(ctx.agent_id), str(text))) or spec_by_agent[str(ctx.agent_id)]
        for rec in spec["logs"]:
            live = copy.deepcopy(dict(rec["payload"], turn=ctx.turn_id))
            append_jsonl(rec["stream"], live)
            # a stage goes on using the object it has just logged (running totals, a metrics dict that is filled in later):
            # what reaches the disk is the record as it was when it was logged
            if isinstance(live.get("stats"), dict):
                live["stats"]["n"] = int(live["stats"].get("n", 0)) + 1
                live["stats"]["late"] = True
            if isinstance(live.get("items"), list):
                live["items"].append("added after logging")
            if isinstance(live.get("deep"), dict):
                live["deep"]["per_graph"]["g1"]["seen"].append("late")
                live["deep"]["per_graph"]["g1"]["n"] += 1
                live["deep"]["per_graph"]["g2"] = {"seen": [], "n": 0}
                live["deep"]["rows"][0].append("late")
                live["deep"]["rows"][1]["k"].append(2)
        extra = ""
        if spec.get("reads_registry"):
            # an order-sensitive read of a mapping on the state (first two entries in iteration order), logged together with the
            # list held under the first one - in the compute phase these come out of the read-only snapshot
            how = spec.get("read_how", "attr")
            if how == "subscript":
                reg = state["registry"]          # the plain-dict way (tests/helpers build dict states and read them like this)
            elif how == "iterate":
                # a dict-shaped state walked like a dict: its key names (sorted: only the set matters) and their number
                keys = sorted(str(k) for k in state if not str(k).startswith("_"))
                append_jsonl("t1.jsonl", {"agent": str(ctx.agent_id), "turn": ctx.turn_id, "state_keys": keys[:4], "has_registry": "registry" in keys,
                                          "len_ok": len(state) >= len(keys)})
                reg = state["registry"]
            else:
                reg = getattr(state, "registry", None)
                if reg is None:
                    reg = state.get("registry") if hasattr(state, "get") else None
            if reg is not None:
                first = list(reg)[:2]
                held = reg[first[0]] if first else []
                append_jsonl("t1.jsonl", {"agent": str(ctx.agent_id), "turn": ctx.turn_id, "first": first, "held": held, "n": len(reg)})
                extra = " [" + " ".join(str(x) for x in first) + "]"
        deltas = [ProposedDelta(target_kind="node", target_id=d["id"], attr="weight", delta=float(d["delta"]), op_idx=None, idx=i)
                  for i, d in enumerate(spec["deltas"])]
        if extra:
            spec = dict(spec, utter=spec["utter"] + extra)
        t4 = types.SimpleNamespace(approved_deltas=deltas, rejected_ops=[], reasons=[], metrics={})
        t4cfg = (ctx.cfg.get("t4") or {}) if isinstance(ctx.cfg, dict) else {}
        if not bool(t4cfg.get("enabled", True)):
            # kill switch: as core.run_turn, neither T4 nor Apply happen (and nothing is stashed for a commit phase)
            return types.SimpleNamespace(line=spec["utter"], events=[])
        if getattr(ctx, "_dry_run_until_t4", False):
            ctx._dryrun_t4 = t4
            ctx._dryrun_utter = spec["utter"]
            # what T1 says it touched: the agent's declared graphs, or those and the shared surface graph every commit writes to
            ctx._dryrun_t1 = {"graphs_touched": list(spec["graphs"]) + (["g:surface"] if touched_shared else [])}
            ctx._dryrun_t2 = {"k_returned": 0, "k_used": 0}
            return types.SimpleNamespace(line=spec["utter"], events=[])
        # non-dry: commit exactly as core does
        ap = core.apply_changes(ctx, state, t4)
        rec = {"turn": ctx.turn_id, "agent": ctx.agent_id, "applied": ap.applied, "clamps": ap.clamps, "version_etag": ap.version_etag,
               "snapshot": ap.snapshot_path, "cache_invalidations": int((ap.metrics or {}).get("cache_invalidations", 0)), "ms": 0.0}
        append_jsonl("apply.jsonl", rec)
        return types.SimpleNamespace(line=spec["utter"], events=[])
    return stub


def _contract_once(p: Dict[str, Any], mode: str, limit: Optional[int], stats: Dict[str, int]) -> Dict[str, Any]:
    """mode: 'driver' (parallel gate on, staging byte limit `limit`) or 'loop' (sequential reference over `picked`)."""
    # (a wall clock that does not sit on a round number: anything derived from it must show)
    clock = SimClock(None, "steady", wall0_s=1_700_000_000.0 + 4321.987)
    out: Dict[str, Any] = {"exc": None}
    spec_by_agent: Dict[Any, Dict[str, Any]] = {}
    for a in p["agents"]:
        a = dict(a, reads_registry=a["id"] in (p.get("readers") or []), read_how=p.get("read_how", "attr"))
        spec_by_agent.setdefault(a["id"], a)
        spec_by_agent[(a["id"], a["text"])] = a
    real_run_turn = core.Orchestrator.run_turn
    with Scratch() as root:
        with E.EngineEnv(root, clock) as ee:
            raw = {"t4": {"snapshot_every_n_turns": int(p["every"]), "snapshot_dir": ee.snap, "cache_bust_mode": p["bust"],
                          "enabled": bool(p.get("t4_enabled", True))},
                   "perf": {"enabled": True, "parallel": {"enabled": True, "agents": True, "max_workers": int(p["workers"])}}}
            cfg = E.make_cfg(raw)
            ctx = types.SimpleNamespace(cfg=cfg, config=cfg, turn_id=p["turn_id"], now_ms=E.T0_MS, now=E.iso_from_ms(E.T0_MS))
            if p.get("no_turn_id"):
                del ctx.turn_id
            elif p.get("turn_id_none"):
                ctx.turn_id = None
            if p.get("ctx_style") == "cfg_only":
                del ctx.config   # the shape of the engine's own TurnCtx and of every caller in the tree: the configuration on ctx.cfg only
            store = _Store()
            state: Dict[str, Any] = (_AState if p.get("state_style") == "attr" else dict)(
                {"store": store, "version_etag": "0", "graphs_by_agent": {}, "agents": {}})
            state["registry"] = {k: ["held-by-%s" % k, i] for i, k in enumerate(p.get("registry") or [])}
            for a in p["agents"]:
                decl = a.get("decl", "gba")
                if decl in ("gba", "both", "meta_plus_gba"):
                    state["graphs_by_agent"][a["id"]] = list(a["graphs"])
                if decl in ("agents", "both"):
                    state["agents"][a["id"]] = {"graphs": list(a["graphs"]), "role": "x"}
                elif decl == "meta_plus_gba":
                    state["agents"][a["id"]] = {"role": "registered without a graphs field"}
                elif decl == "agents_obj":
                    state["agents"][a["id"]] = types.SimpleNamespace(graphs=list(a["graphs"]))
            if not state["agents"]:
                del state["agents"]
            tasks = [(a["id"], a["text"]) for a in p["agents"]]
            core.Orchestrator.run_turn = _mk_stub(spec_by_agent, bool(p.get("touched_shared")))
            saved_enable = orch.__dict__.get("enable_staging")
            drains = {"n": 0}
            try:
                if mode == "driver":
                    def enable():
                        st = IOL.enable_staging(int(limit))
                        real_drain = st.drain_sorted

                        def drain():
                            drains["n"] += 1
                            return real_drain()
                        st.drain_sorted = drain  # type: ignore[method-assign]
                        return st
                    orch.enable_staging = enable
                    try:
                        res = opar._run_agents_parallel_batch(ctx, state, tasks)
                        out["results"] = [getattr(x, "line", None) for x in res]
                    except Exception as e:  # noqa: BLE001
                        import traceback
                        tb = [f for f in traceback.extract_tb(e.__traceback__) if "/clematis/" in f.filename]
                        out["exc"] = {"type": type(e).__name__, "where": tb[-1].name if tb else "?", "msg": str(e)[:120]}
                else:
                    picked = opar._select_independent_batch([a for a, _ in tasks], state, int(p["workers"]))
                    out["picked"] = picked
                    res = []
                    ran = set()
                    for aid, text in tasks:
                        # one turn per selected agent: a second task of the same agent overlaps the first and waits for a later batch
                        if aid not in picked or aid in ran:
                            continue
                        ran.add(aid)
                        sub = opar._clone_ctx_for_agent(ctx, aid, getattr(ctx, "turn_id", 0))   # as the driver's own sequential branch
                        sub._dry_run_until_t4 = False
                        res.append(core.Orchestrator().run_turn(sub, state, text))
                    out["results"] = [getattr(x, "line", None) for x in res]
            finally:
                core.Orchestrator.run_turn = real_run_turn
                if saved_enable is not None:
                    orch.enable_staging = saved_enable
                IOL.disable_staging()
            out["drains"] = max(0, drains["n"] - 1)
            out["logs"] = {n: E.normalise_paths(b, root).decode("utf-8", "replace") for n, b in E.read_dir(ee.logs).items()}
            out["snaps"] = sorted(n for n in E.read_dir(ee.snap) if n.endswith(".json"))
            out["store_calls"] = store.calls
            out["weights"] = sorted((repr(k), v) for k, v in store.w.items())
            out["version"] = state.get("version_etag")
    return out


def _greedy(p: Dict[str, Any]) -> List[str]:
    picked, used = [], set()
    for a in p["agents"]:
        if len(picked) >= max(1, int(p["workers"])):
            break
        g = set(a["graphs"])
        if used.isdisjoint(g):
            picked.append(a["id"])
            used |= g
    return picked


def _contract(p: Dict[str, Any], stats: Dict[str, int]) -> List[Dict[str, Any]]:
    viol: List[Dict[str, Any]] = []

    def bad(sig, detail):
        if not any(v["sig"] == sig for v in viol):
            viol.append({"cls": "contract", "sig": sig, "detail": detail})

    ref = _contract_once(p, "loop", None, stats)
    if ref["picked"] != _greedy(p):
        bad("selection-not-greedy-disjoint-prefix", "picked %s, greedy disjoint prefix within %s workers is %s (graph sets %s)" % (
            ref["picked"], p["workers"], _greedy(p), {a["id"]: a["graphs"] for a in p["agents"]}))
    gs = {a["id"]: set(a["graphs"]) for a in p["agents"]}
    for i, a in enumerate(ref["picked"]):
        for b in ref["picked"][i + 1:]:
            if gs[a] & gs[b]:
                bad("overlapping-agents-in-one-batch", "%s and %s share %s" % (a, b, gs[a] & gs[b]))
    if len(ref["picked"]) > 1:
        stats["multi_agent_batches"] = 1
    for lim in p["limits"]:
        stats["evaluations"] = stats.get("evaluations", 0) + 1
        got = _contract_once(p, "driver", lim, stats)
        stats["backpressure_drains"] = stats.get("backpressure_drains", 0) + int(got.get("drains", 0))
        tag = "limit=%s" % ("1" if lim == 1 else ("mid" if lim < 10**6 else "32MiB"))
        ctxs = "byte limit %d, workers %s, picked %s" % (lim, p["workers"], ref["picked"])
        if got["exc"] is not None:
            bad("driver-raised:%s@%s:%s" % (got["exc"]["type"], got["exc"]["where"], tag), "%s; %s" % (got["exc"], ctxs))
            continue
        if got["results"] != ref["results"]:
            bad("results-differ", "%s vs sequential %s; %s" % (got["results"], ref["results"], ctxs))
        if got["store_calls"] != ref["store_calls"] or got["weights"] != ref["weights"]:
            bad("store-handoff-differs", "%s vs sequential %s; %s" % (str(got["store_calls"])[:200], str(ref["store_calls"])[:200], ctxs))
        if got["version"] != ref["version"]:
            bad("version-differs", "%s vs %s; %s" % (got["version"], ref["version"], ctxs))
        if got["snaps"] != ref["snaps"]:
            bad("snapshot-files-differ", "driver wrote %s, sequential loop wrote %s; %s" % (got["snaps"], ref["snaps"], ctxs))
        for n in sorted(set(got["logs"]) | set(ref["logs"])):
            if got["logs"].get(n) != ref["logs"].get(n):
                la, lb = (got["logs"].get(n) or "").split("\n"), (ref["logs"].get(n) or "").split("\n")
                field = "order-or-count"
                for x, y in zip(la, lb):
                    if x != y:
                        try:
                            jx, jy = json.loads(x), json.loads(y)
                            ks = [k for k in sorted(set(jx) | set(jy)) if jx.get(k) != jy.get(k)]
                            if ks and jx.get("agent") == jy.get("agent"):
                                field = ks[0]
                        except Exception:
                            pass
                        break
                bad("log-differs:%s:%s:%s" % (n, field, tag), "%s: driver %s VS sequential %s; %s" % (n, str(la[:3])[:260], str(lb[:3])[:260], ctxs))
                break
    return viol


def _real(p: Dict[str, Any], stats: Dict[str, int]) -> List[Dict[str, Any]]:
    viol: List[Dict[str, Any]] = []
    stats["evaluations"] = 1
    agents = sorted(p["world"]["agents"])
    tasks = [(a, p["texts"][i % len(p["texts"])]) for i, a in enumerate(agents)]
    outs = {}
    for mode in ("loop", "driver"):
        clock = SimClock(None, "steady")
        with Scratch() as root:
            with E.EngineEnv(root, clock) as ee:
                raw = copy.deepcopy(p["cfg"])
                E._set_path(raw, ["t4", "snapshot_dir"], ee.snap)
                raw["perf"] = {"enabled": True, "parallel": {"enabled": mode == "driver", "agents": mode == "driver", "max_workers": int(p["workers"])}}
                cfg = E.make_cfg(raw)
                state = E.build_state(p["world"])
                state["graphs_by_agent"] = {a: list(g) for a, g in p["world"]["agents"].items()}
                state["active_graphs"] = sorted(p["world"]["graphs"])
                ctx = types.SimpleNamespace(cfg=cfg, config=cfg, turn_id=p["turn_id"], now_ms=E.T0_MS, now=E.iso_from_ms(E.T0_MS))
                try:
                    res = opar._run_agents_parallel_batch(ctx, state, tasks)
                    outs[mode] = {"results": [getattr(x, "line", None) for x in res],
                                  "logs": {n: E.normalise_paths(b, root).decode("utf-8", "replace") for n, b in E.read_dir(ee.logs).items() if n in E.CANON_STREAMS},
                                  "version": state.get("version_etag")}
                except Exception as e:  # noqa: BLE001
                    import traceback
                    tb = [f for f in traceback.extract_tb(e.__traceback__) if "/clematis/" in f.filename]
                    outs[mode] = {"exc": "%s@%s" % (type(e).__name__, tb[-1].name if tb else "?"), "msg": str(e)[:160]}
                finally:
                    IOL.disable_staging()
    a, b = outs["loop"], outs["driver"]
    if "exc" in a:
        viol.append({"cls": "real", "sig": "real:sequential-raised:%s" % a["exc"], "detail": a["msg"]})
    elif "exc" in b:
        viol.append({"cls": "real", "sig": "real:driver-raised:%s" % b["exc"], "detail": "the real pipeline through the batch driver raised %s: %s" % (b["exc"], b["msg"])})
    elif a["results"] != b["results"]:
        viol.append({"cls": "real", "sig": "real:results-differ", "detail": "%s vs %s" % (b["results"], a["results"])})
    elif a["logs"] != b["logs"] or a["version"] != b["version"]:
        n = [k for k in sorted(set(a["logs"]) | set(b["logs"])) if a["logs"].get(k) != b["logs"].get(k)]
        viol.append({"cls": "real", "sig": "real:logs-or-state-differ:%s" % (n[0] if n else "version"), "detail": "driver vs sequential differ in %s" % (n or "version")})
    return viol


def execute(p: Dict[str, Any]) -> Dict[str, Any]:
    stats: Dict[str, int] = {"target_" + p["target"]: 1}
    if p["target"] == "contract":
        viol = _contract(p, stats)
        nontrivial = bool(stats.get("multi_agent_batches") and stats.get("backpressure_drains"))
    else:
        viol = _real(p, stats)
        nontrivial = True
    return {"violations": viol, "stats": stats, "faults": {"backpressure_drain": stats.get("backpressure_drains", 0)}, "nontrivial": nontrivial,
            "key": E.jdigest(p), "sim_s": 0.0, "log": E.jdigest(viol)}
