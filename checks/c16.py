"""C16 - log streams stay well-formed, ordered and lossless.

Sub-targets (one per run, chosen by the seed):
  writers   2-6 simulated writer tasks (separate file descriptions = threads or processes) append generated records through the
            real append_jsonl; every raw append is one scheduler-controlled event
  stager    LogStager driven with the documented drain-flush-retry protocol under byte limits 1..inf and permuted arrivals
  normalise CI identity normalisation on generated records (idempotent, only volatile fields)
  rewrite   rewrite_jsonl preserves the records
  rotation  histories of append / rotate_one(backups=N) with pre-existing generations and gaps, a kill between any two
            file-system steps of a rotation, followed by further rotations
"""
from __future__ import annotations

import copy
import json
import os
from typing import Any, Dict, List, Optional, Tuple

from vsim import use_repo

use_repo()

from vsim import engine as E  # noqa: E402
from vsim.clock import SimClock, SimTime  # noqa: E402
from vsim.fs import FaultPlan, SimCrash, SimFS  # noqa: E402
from vsim.rng import Rng  # noqa: E402
from vsim.sched import Sched  # noqa: E402
from vsim.scratch import Scratch  # noqa: E402

import clematis.io.atomic as atomic  # noqa: E402
import clematis.io.log as iolog  # noqa: E402
import clematis.scripts.rotate_logs as rot  # noqa: E402
from clematis.engine.util import io_logging as IOL  # noqa: E402

PROPERTY = "C16"
LEVEL = "exploration"
RUNS = {"quick": 8000, "thorough": 120000}
RULE = ("one run = one sub-target: (writers) 2-6 writer tasks x 1-5 records (1 B .. 200 KiB, unicode) under a seeded interleaving of "
        "raw append events; (stager) records with generated (turn, stream, slice) keys staged under 3 byte limits and compared; "
        "(rotation) 4-14 ops over {append, rotate(backups 1-4), kill at I/O step k of a rotation} on a directory with pre-existing "
        "generations/gaps; (normalise/rewrite) generated records. non-trivial = more than one writer interleaved, a back-pressure "
        "drain happened, or a rotation ran; distinct = digest of (program, schedule)")
REAL = ["clematis/io/log.py:append_jsonl,_append_jsonl_unbuffered,rewrite_jsonl", "io_logging.LogStager,default_key_for,normalize_for_identity",
        "scripts/rotate_logs.py:rotate_one", "io/atomic.py:atomic_replace", "CPython BufferedWriter above the raw append"]
STUBS = ["raw O_APPEND file layer (SimRaw: one write = one atomic append event)", "thread scheduler (seeded choice at every raw append / open)",
         "time.sleep of atomic_replace", "kill = SimCrash at an intercepted file-system event; everything already performed survives"]
ASSUMPTIONS = [
    "an O_APPEND write(2) of one buffer is atomic with respect to other appenders (POSIX local file systems)",
    "writers in other processes are modelled as tasks with their own file description and buffer",
    "a rotation is interrupted by a process kill between two file-system steps, or by a step that fails (EIO / ENOSPC / EACCES / EBUSY / EXDEV, once or persistently)",
    "stager: the producers in the tree stage each file's records in key order; a limit-dependent order is reported as "
    "stager:non-monotone-arrival when the arrivals for that file were not already in key order, otherwise stager:monotone-arrival",
]
SHRINK_FIELDS = ["ops", "writers", "records"]

TARGETS = ["writers", "stager", "normalise", "rewrite", "rotation"]
STREAMS = ["t1.jsonl", "t2.jsonl", "t4.jsonl", "apply.jsonl", "turn.jsonl", "health.jsonl", "scheduler.jsonl", "t3_reflection.jsonl", "gel.jsonl", "custom.jsonl"]


def _record(r, wid: int, i: int, big: bool = False) -> Dict[str, Any]:
    rec: Dict[str, Any] = {"w": wid, "i": i, "turn": r.randint(0, 5), "agent": r.choice(["a", "ü", "B b"]), "ms": round(r.uniform(0, 50), 3)}
    if r.chance(0.4):
        rec["now"] = "2023-11-14T22:13:20+00:00"
    if r.chance(0.3):
        rec["text"] = r.choice(["plain", "uni→ñ日本", "line\nbreak", "quote\"s", "tab\tbed", "ls\u2028sep", "nel\x85", "ps\u2029", "cr\r\n", "ff\x0c\x1c", "",
                                # half of a surrogate pair (text cut in the middle of an emoji): a str Python and JSON can both hold;
                                # kept symbolic in the program, which is written as UTF-8
                                "$lone_surrogate"])
    if r.chance(0.3):
        rec["durations_ms"] = {"t1": 1.5, "total": 9.25}
    if r.chance(0.3):
        rec["yielded"] = r.chance(0.5)
        rec["slice_idx"] = r.randint(0, 3)
    if big:
        rec["blob"] = "x" * r.choice([5000, 9000, 70000, 200000])
    return rec


def generate(seed: int, tier: str) -> Dict[str, Any]:
    rng = Rng(seed)
    r = rng.stream("gen")
    target = r.weighted([("writers", 4), ("stager", 3), ("normalise", 1), ("rewrite", 1), ("rotation", 4), ("capture", 2)])
    p: Dict[str, Any] = {"target": target, "sched_seed": int(r.u64() % (1 << 30))}
    if target == "writers":
        ws = []
        for w in range(r.randint(2, 6)):
            ws.append({"stream": r.choice(["t1.jsonl", "t1.jsonl", "custom.jsonl"]),
                       "records": [_record(r, w, i, big=r.chance(0.15)) for i in range(r.randint(1, 5))]})
        p["writers"] = ws
        p["ci"] = r.chance(0.5)
    elif target == "stager":
        recs = []
        for i in range(r.randint(2, 14)):
            recs.append({"file": r.choice(STREAMS[:6] + ["custom.jsonl"]), "turn": r.randint(0, 3), "slice": r.randint(0, 2),
                         "payload": _record(r, 0, i)})
        if r.chance(0.6):
            # the shape the tree's producers create: per buffer (turn, slice) records arrive in stream order
            recs.sort(key=lambda x: (x["turn"], x["slice"], IOL.STAGE_ORD.get(x["file"], 99)))
        p["records"] = recs
        p["limits"] = [1, r.choice([40, 80, 150, 400]), 32 * 1024 * 1024]
    elif target == "capture":
        # one writer under nested log captures (a driver that buffers its own records runs a compute phase that buffers too):
        # begin / end of a capture, the end either flushing what it holds or dropping it, and writes in between
        ops, depth, n = [], 0, 0
        for _ in range(r.randint(4, 14)):
            x = r.random()
            if x < 0.2 and depth < 3:
                ops.append({"op": "begin"})
                depth += 1
            elif x < 0.4 and depth > 0:
                ops.append({"op": "end", "flush": r.chance(0.8)})
                depth -= 1
            else:
                ops.append({"op": "write", "file": r.choice(["t1.jsonl", "t1.jsonl", "scheduler.jsonl", "custom.jsonl"]), "payload": _record(r, 0, n),
                            "via": r.choice(["append", "append", "mux"]), "late": r.chance(0.3)})
                n += 1
        while depth > 0:
            ops.append({"op": "end", "flush": True})
            depth -= 1
        p["ops"] = ops
        p["ci"] = r.chance(0.5)
    elif target in ("normalise", "rewrite"):
        p["records"] = [{"file": r.choice(STREAMS), "payload": _record(r, 0, i)} for i in range(r.randint(1, 8))]
        p["ci"] = r.chance(0.8)
    else:
        pre = {}
        seq = 0
        # generation numbers left by earlier runs, some with a larger backup count (two digits: "10" sorts before "2" as text)
        pool = [1, 2, 3, 4, 5] if r.chance(0.7) else [1, 2, 3, 4, 9, 10, 11, 12, 20]
        backs = [1, 2, 3, 4] if pool[-1] == 5 else [1, 2, 3, 4, 10, 11]
        for g in sorted(r.sample(pool, r.randint(0, 3 if pool[-1] == 5 else 5)), reverse=True):
            pre[str(g)] = list(range(seq, seq + r.randint(1, 2)))
            seq += len(pre[str(g)])
        ops = []
        for _ in range(r.randint(4, 14)):
            x = r.random()
            if x < 0.45:
                ops.append({"op": "append", "n": r.randint(1, 3)})
            elif x < 0.7:
                ops.append({"op": "rotate", "backups": r.choice(backs)})
            elif x < 0.85:
                ops.append({"op": "rotate", "backups": r.choice(backs), "kill_at": r.randint(0, 12)})
            else:
                # a rotation step that FAILS (the other way a rotation is interrupted): the rename / unlink returns an error
                ops.append({"op": "rotate", "backups": r.choice(backs), "fail_at": r.randint(0, 8),
                            "errno": r.choice(["EIO", "ENOSPC", "EACCES", "EBUSY", "EXDEV"]), "times": r.choice([1, -1])})
        p.update({"pre": pre, "pre_count": seq, "ops": ops})
    return p


class _Env:
    def __init__(self, root: str, ci: bool):
        self.root, self.ci = root, ci

    def __enter__(self):
        self.saved = {k: os.environ.get(k) for k in ("CLEMATIS_LOG_DIR", "CI", "CLEMATIS_LOGS_DIR")}
        os.environ["CLEMATIS_LOG_DIR"] = os.path.join(self.root, "logs")
        os.environ.pop("CLEMATIS_LOGS_DIR", None)
        os.environ["CI"] = "true" if self.ci else ""
        os.makedirs(os.path.join(self.root, "logs"), exist_ok=True)
        return self

    def __exit__(self, *a):
        for k, v in self.saved.items():
            if v is None:
                os.environ.pop(k, None)
            else:
                os.environ[k] = v
        return False


def _writers(p: Dict[str, Any], stats: Dict[str, int]) -> Tuple[List[Dict[str, Any]], Optional[str]]:
    viol: List[Dict[str, Any]] = []
    with Scratch("logs") as root, _Env(root, p.get("ci", True)):
        sched = Sched(Rng(int(p["sched_seed"])).stream("sched"), step_cap=100_000)
        fs = SimFS(root, yield_fn=lambda op, rel: sched.yield_point("io." + op))
        with sched, fs:
            def mk(w):
                def run():
                    for rec in w["records"]:
                        iolog.append_jsonl(w["stream"], rec)
                return run
            ts = [sched.spawn(mk(w), "w%d" % i) for i, w in enumerate(p["writers"])]
            sched.run_all()
            for t in ts:
                if t.exc is not None:
                    viol.append({"cls": "writers", "sig": "writers:raised:%s" % type(t.exc).__name__, "detail": repr(t.exc)[:200]})
        if fs.escaped or fs.unmodelled:
            raise RuntimeError("unintercepted I/O: %r %r" % (fs.escaped[:3], fs.unmodelled[:3]))
        stats["append_events"] = stats.get("append_events", 0) + sum(1 for e in fs.trace if e[1] == "write")
        stats["sched_steps"] = stats.get("sched_steps", 0) + sched.steps
        by_stream: Dict[str, List[Dict[str, Any]]] = {}
        for w in p["writers"]:
            by_stream.setdefault(w["stream"], [])
        for stream in by_stream:
            data = fs.read("logs/" + stream) or b""
            if data and not data.endswith(b"\n"):
                viol.append({"cls": "writers", "sig": "writers:no-trailing-lf", "detail": "%s does not end in LF" % stream})
            if b"\r\n" in data:
                viol.append({"cls": "writers", "sig": "writers:crlf", "detail": stream})
            lines = data.split(b"\n")[:-1] if data else []
            parsed = []
            for ln in lines:
                try:
                    parsed.append(json.loads(ln.decode("utf-8")))
                except Exception:
                    viol.append({"cls": "writers", "sig": "writers:unparsable-line",
                                 "detail": "%s has a line that is not one complete JSON record: %r" % (stream, ln[:80])})
                    break
            if viol:
                break
            want: List[Tuple[int, int]] = []
            for wi, w in enumerate(p["writers"]):
                if w["stream"] == stream:
                    want.extend((wi, i) for i, _ in enumerate(w["records"]))
            got = [(x.get("w"), x.get("i")) for x in parsed]
            if sorted(got) != sorted(want):
                viol.append({"cls": "writers", "sig": "writers:lost-or-duplicated", "detail": "%s: wrote %s, file has %s" % (stream, sorted(want), sorted(got))})
            for wi, _w in enumerate(p["writers"]):
                mine = [i for (ww, i) in got if ww == wi]
                if mine != sorted(mine):
                    viol.append({"cls": "writers", "sig": "writers:per-writer-order", "detail": "writer %d records appear as %s" % (wi, mine)})
            # content equality apart from normalisation
            for x in parsed:
                src = p["writers"][x["w"]]["records"][x["i"]]
                exp = IOL.normalize_for_identity(stream, src)
                if x != json.loads(json.dumps(exp)):
                    viol.append({"cls": "writers", "sig": "writers:content", "detail": "record %s/%s read back as %s" % (x["w"], x["i"], str(x)[:120])})
                    break
        return viol, sched.digest()


def _stage_all(p: Dict[str, Any], limit: int, stats: Dict[str, int]) -> Dict[str, List[Any]]:
    """Documented protocol: stage; on back-pressure drain+flush, then retry once; finally drain+flush."""
    out: Dict[str, List[Any]] = {}

    def flush(recs):
        for rec in recs:
            out.setdefault(rec.file_path, []).append(rec.payload)

    stager = IOL.enable_staging(limit)
    try:
        for rec in p["records"]:
            key = IOL.default_key_for(file_path=rec["file"], turn_id=rec["turn"], slice_idx=rec["slice"])
            try:
                stager.stage(rec["file"], key, dict(rec["payload"]))
            except RuntimeError as e:
                if str(e) != "LOG_STAGING_BACKPRESSURE":
                    raise
                stats["backpressure_drains"] = stats.get("backpressure_drains", 0) + 1
                flush(stager.drain_sorted())
                try:
                    stager.stage(rec["file"], key, dict(rec["payload"]))
                except RuntimeError:
                    # a single record larger than the limit: the documented protocol retries exactly once;
                    # write it through so that nothing is lost (what _append_unbuffered would do)
                    stats["oversize_records"] = stats.get("oversize_records", 0) + 1
                    out.setdefault(rec["file"], []).append(IOL.normalize_for_identity(rec["file"], dict(rec["payload"])))
        flush(stager.drain_sorted())
    finally:
        IOL.disable_staging()
    return out


def _stage_all_driver(p: Dict[str, Any], limit: int, stats: Dict[str, int]) -> Dict[str, List[Any]]:
    """The same arrivals handed to the batch driver's own back-pressure helper (its disk writes captured)."""
    import clematis.engine.orchestrator.parallel as par
    out: Dict[str, List[Any]] = {}
    real = par._append_unbuffered

    def capture(file_path, payload):
        out.setdefault(file_path, []).append(payload)

    par._append_unbuffered = capture
    stager = IOL.enable_staging(limit)
    try:
        for rec in p["records"]:
            key = IOL.default_key_for(file_path=rec["file"], turn_id=rec["turn"], slice_idx=rec["slice"])
            par._stage_or_flush(stager, rec["file"], key, dict(rec["payload"]))
        for rec in stager.drain_sorted():
            capture(rec.file_path, rec.payload)
    finally:
        IOL.disable_staging()
        par._append_unbuffered = real
    stats["driver_helper_runs"] = stats.get("driver_helper_runs", 0) + 1
    return out


def _stager(p: Dict[str, Any], stats: Dict[str, int]) -> List[Dict[str, Any]]:
    viol = _stager_via(p, stats, _stage_all)
    if not viol:
        viol = _stager_via(p, stats, _stage_all_driver)
    return viol


def _stager_via(p: Dict[str, Any], stats: Dict[str, int], stage_all) -> List[Dict[str, Any]]:
    viol: List[Dict[str, Any]] = []
    saved = os.environ.get("CI")
    os.environ["CI"] = "true"
    try:
        outs = {lim: stage_all(p, lim, stats) for lim in p["limits"]}
    finally:
        if saved is None:
            os.environ.pop("CI", None)
        else:
            os.environ["CI"] = saved
    ref = outs[p["limits"][-1]]
    files = sorted({r["file"] for r in p["records"]})
    for f in files:
        arrivals = [(r["turn"], IOL.STAGE_ORD.get(os.path.basename(r["file"]), 99), r["slice"]) for r in p["records"] if r["file"] == f]
        monotone = arrivals == sorted(arrivals)
        want_ids = sorted(r["payload"]["i"] for r in p["records"] if r["file"] == f)
        for lim, out in outs.items():
            got = [x["i"] for x in out.get(f, [])]
            if sorted(got) != want_ids:
                viol.append({"cls": "stager", "sig": "stager:lost-or-duplicated", "detail": "limit %d file %s: staged %s flushed %s" % (lim, f, want_ids, got)})
        # unlimited staging must flush in key order (turn, stage, slice, arrival)
        got_ref = [x["i"] for x in ref.get(f, [])]
        exp = [r["payload"]["i"] for r in sorted([r for r in p["records"] if r["file"] == f], key=lambda r: (r["turn"], r["slice"], r["payload"]["i"]))]
        if got_ref != exp:
            viol.append({"cls": "stager", "sig": "stager:key-order", "detail": "file %s flushed %s, key order is %s" % (f, got_ref, exp)})
        for lim, out in outs.items():
            if [x["i"] for x in out.get(f, [])] != got_ref:
                viol.append({"cls": "stager", "sig": "stager:%s" % ("monotone-arrival" if monotone else "non-monotone-arrival"),
                             "detail": "file %s: order under byte limit %d is %s, without limit %s (arrival keys %s)" % (
                                 f, lim, [x["i"] for x in out.get(f, [])], got_ref, arrivals)})
                break
    return viol


def _normalise(p: Dict[str, Any], stats: Dict[str, int]) -> List[Dict[str, Any]]:
    viol: List[Dict[str, Any]] = []
    saved = os.environ.get("CI")
    os.environ["CI"] = "true" if p.get("ci", True) else ""
    try:
        for rec in p["records"]:
            stats["evaluations"] = stats.get("evaluations", 0) + 1
            src = copy.deepcopy(rec["payload"])
            once = IOL.normalize_for_identity(rec["file"], rec["payload"])
            if rec["payload"] != src:
                viol.append({"cls": "normalise", "sig": "normalise:mutates-input", "detail": str(rec)[:200]})
            twice = IOL.normalize_for_identity(rec["file"], copy.deepcopy(once))
            if twice != once:
                viol.append({"cls": "normalise", "sig": "normalise:not-idempotent", "detail": "%s -> %s -> %s" % (src, once, twice)})
            volatile = {"ms", "now", "durations_ms", "yielded", "slice_idx"}
            for k in set(src) | set(once):
                if k in volatile:
                    continue
                if src.get(k) != once.get(k):
                    viol.append({"cls": "normalise", "sig": "normalise:touches-stable-field:" + str(k), "detail": "%s: %r -> %r" % (rec["file"], src.get(k), once.get(k))})
            if not p.get("ci", True) and once != src:
                viol.append({"cls": "normalise", "sig": "normalise:active-without-ci", "detail": str(rec)[:160]})
            if p.get("ci", True) and src.get("yielded") and rec["file"] == "turn.jsonl":
                if once.get("slice_idx") != src.get("slice_idx") or once.get("yielded") is not True:
                    viol.append({"cls": "normalise", "sig": "normalise:drops-yield-marker", "detail": "%s -> %s" % (src, once)})
    finally:
        if saved is None:
            os.environ.pop("CI", None)
        else:
            os.environ["CI"] = saved
    return viol


def _rewrite(p: Dict[str, Any], stats: Dict[str, int]) -> List[Dict[str, Any]]:
    viol: List[Dict[str, Any]] = []
    with Scratch("logs") as root, _Env(root, p.get("ci", True)):
        by_file: Dict[str, List[Dict[str, Any]]] = {}
        for rec in p["records"]:
            by_file.setdefault(rec["file"], []).append(rec["payload"])
        for f, recs in by_file.items():
            stats["evaluations"] = stats.get("evaluations", 0) + 1
            for rec in recs:
                iolog.append_jsonl(f, rec)
            before = [json.loads(ln) for ln in open(os.path.join(root, "logs", f), "rb").read().decode("utf-8").split("\n")[:-1]]
            iolog.rewrite_jsonl(f, before)
            raw = open(os.path.join(root, "logs", f), "rb").read()
            try:
                after = [json.loads(ln) for ln in raw.decode("utf-8").split("\n")[:-1]] if raw else []
            except Exception as e:  # noqa: BLE001
                viol.append({"cls": "rewrite", "sig": "rewrite:unparsable-line", "detail": "%s after compaction: %r (%d lines for %d records)" % (
                    f, e, raw.count(b"\n"), len(before))})
                continue
            if after != before:
                viol.append({"cls": "rewrite", "sig": "rewrite:records-changed", "detail": "%s: %s -> %s" % (f, str(before)[:160], str(after)[:160])})
            if raw and (not raw.endswith(b"\n") or b"\r" in raw.replace(b"\\r", b"")):
                viol.append({"cls": "rewrite", "sig": "rewrite:line-endings", "detail": f})
            iolog.rewrite_jsonl(f, after)
            if open(os.path.join(root, "logs", f), "rb").read() != raw:
                viol.append({"cls": "rewrite", "sig": "rewrite:not-a-fixpoint", "detail": f})
    return viol


def _rotation(p: Dict[str, Any], stats: Dict[str, int]) -> List[Dict[str, Any]]:
    viol: List[Dict[str, Any]] = []
    saved_time = atomic.time
    with Scratch("logs") as root:
        clock = SimClock(None, "steady")
        atomic.time = SimTime(clock)
        try:
            path = os.path.join(root, "logs", "t1.jsonl")

            def write(fp, ids, mode="w"):
                with open(fp, mode, encoding="utf-8") as fh:
                    for i in ids:
                        fh.write(json.dumps({"i": i}) + "\n")

            for g, ids in p["pre"].items():
                write("%s.%s" % (path, g), ids)
            appended = int(p["pre_count"])
            everything: List[int] = list(range(appended))

            def snapshot() -> Dict[str, List[int]]:
                out = {}
                for n in os.listdir(os.path.join(root, "logs")):
                    fp = os.path.join(root, "logs", n)
                    try:
                        out[n] = [json.loads(ln)["i"] for ln in open(fp, encoding="utf-8").read().splitlines()]
                    except Exception:
                        out[n] = ["<unreadable>"]  # type: ignore[list-item]
                return out

            def gens(snap: Dict[str, List[int]]) -> List[int]:
                """oldest -> newest"""
                nums = sorted((int(n.rsplit(".", 1)[1]) for n in snap if n.startswith("t1.jsonl.") and n.rsplit(".", 1)[1].isdigit()), reverse=True)
                seq: List[int] = []
                for g in nums:
                    seq.extend(snap["t1.jsonl.%d" % g])
                seq.extend(snap.get("t1.jsonl", []))
                return seq

            chain: Any = None
            for oi, op in enumerate(p["ops"]):
                stats["evaluations"] = stats.get("evaluations", 0) + 1
                if op["op"] == "append":
                    ids = list(range(appended, appended + int(op["n"])))
                    write(path, ids, "a")
                    appended += len(ids)
                    everything.extend(ids)
                    continue
                before = snapshot()
                retry = False
                n = int(op["backups"])
                # what a rotation keeping n generations may drop: everything numbered n or beyond (leftovers of a larger
                # backup count included) - but never a generation while an older one stays (checked below)
                oldest_before = set()
                for gname, recs in before.items():
                    suf = gname.rsplit(".", 1)[1] if gname.startswith("t1.jsonl.") else ""
                    if suf.isdigit() and int(suf) >= n:
                        oldest_before |= set(recs)
                if chain is not None and chain["backups"] == n:
                    # the previous rotation (same depth) was interrupted before the live log moved: this one is its completion, and
                    # together they may lose what ONE rotation may lose - the generation that was oldest when the first attempt began
                    oldest_before = set(chain["allowed"])
                    stats["rotation_retries"] = stats.get("rotation_retries", 0) + 1
                    retry = True
                faults = [{"k": int(op["kill_at"]), "kind": "crash"}] if "kill_at" in op else []
                if "fail_at" in op:
                    faults = [{"k": int(op["fail_at"]), "kind": "error", "errno": op["errno"], "times": int(op.get("times", 1))}]
                fs = SimFS(root, plan=FaultPlan(faults), clock=clock)
                killed = False
                with fs:
                    try:
                        rot.rotate_one(path, n)
                    except SimCrash:
                        killed = True
                        stats["kills_fired"] = stats.get("kills_fired", 0) + 1
                    except OSError:
                        killed = "error"  # type: ignore[assignment]
                        stats["rotation_errors_raised"] = stats.get("rotation_errors_raised", 0) + 1
                if "fail_at" in op and fs.plan.fired:
                    stats["rotation_step_failures"] = stats.get("rotation_step_failures", 0) + 1
                stats["rotations"] = stats.get("rotations", 0) + 1
                stats["rotation_events"] = stats.get("rotation_events", 0) + len(fs.trace)
                after = snapshot()
                leftovers = [x for x in after if not (x == "t1.jsonl" or (x.startswith("t1.jsonl.") and x.rsplit(".", 1)[1].isdigit()))]
                if leftovers:
                    viol.append({"cls": "rotation", "sig": "rotation:leftover-file", "detail": "op#%d left %s" % (oi, leftovers)})
                seq = gens(after)
                ctx = "op#%d %s killed=%s: before %s after %s" % (oi, op, killed, before, after)
                if len(seq) != len(set(seq)):
                    viol.append({"cls": "rotation", "sig": "rotation:duplicated", "detail": ctx})
                it = iter(everything)
                if not all(any(x == y for y in it) for x in seq):
                    viol.append({"cls": "rotation", "sig": "rotation:order-not-preserved", "detail": "generations oldest->newest %s are not a subsequence of %s; %s" % (seq, everything, ctx)})
                lost = set(gens(before)) - set(seq)
                incomplete = bool(killed) and "t1.jsonl" in after and after.get("t1.jsonl") == before.get("t1.jsonl")
                chain = {"backups": n, "allowed": set(oldest_before) - lost} if (incomplete and "t1.jsonl" in before) else None
                if not lost <= oldest_before:
                    viol.append({"cls": "rotation", "sig": ("rotation:retry-lost-another-generation" if retry else "rotation:lost-more-than-oldest%s" % (":failed-step" if killed == "error" or "fail_at" in op else (":killed" if killed else ""))),
                                 "detail": "lost %s, the then-oldest generation held %s; %s" % (sorted(lost), sorted(oldest_before), ctx)})
                if lost and not killed:
                    # "without losing any but the oldest": whatever is dropped is older than everything kept
                    order = gens(before)
                    kept_old = [x for x in order if x not in lost]
                    if kept_old and max(order.index(x) for x in lost) > min(order.index(x) for x in kept_old):
                        viol.append({"cls": "rotation", "sig": "rotation:lost-a-generation-younger-than-a-kept-one",
                                     "detail": "lost %s although older records %s stay; %s" % (sorted(lost), [x for x in kept_old if order.index(x) < max(order.index(y) for y in lost)][:6], ctx)})
                if viol:
                    break
        finally:
            atomic.time = saved_time
    return viol


def _capture(p: Dict[str, Any], stats: Dict[str, int]) -> List[Dict[str, Any]]:
    """Nested log captures around one writer: what reaches the disk is what a small stack model says, in the writer's order."""
    import clematis.engine.orchestrator.logging as olog
    import clematis.engine.util.logmux as lmux
    from clematis.io.log import append_jsonl
    viol: List[Dict[str, Any]] = []
    with Scratch("logs") as root, _Env(root, p.get("ci", True)):
        stack: List[Any] = []            # engine side: (mux, token)
        model: List[List[Any]] = []      # model side: buffers of (file, i)
        disk: Dict[str, List[int]] = {}

        def model_write(f, i):
            if model:
                model[-1].append((f, i))
            else:
                disk.setdefault(f, []).append(i)

        try:
            for op in p["ops"]:
                if op["op"] == "begin":
                    stack.append(olog._begin_log_capture())
                    model.append([])
                    stats["captures"] = stats.get("captures", 0) + 1
                    stats["max_depth"] = max(stats.get("max_depth", 0), len(stack))
                elif op["op"] == "end":
                    mux, token = stack.pop()
                    pairs = mux.dump()
                    olog._end_log_capture(token)
                    held = model.pop()
                    if op.get("flush", True):
                        lmux.flush(pairs)           # through the real writer: into the enclosing capture, or to the disk
                        for f, i in held:
                            model_write(f, i)
                else:
                    rec = copy.deepcopy(dict(op["payload"]))
                    if op.get("via") == "mux":
                        lmux.write_or_buffer(op["file"], rec)    # the capture-aware call point the mux module offers
                        stats["writes_via_mux_call_point"] = stats.get("writes_via_mux_call_point", 0) + 1
                    else:
                        append_jsonl(op["file"], rec)
                    if op.get("late"):
                        # the writer goes on using its object: what was logged is the record as it was when it was logged
                        rec["i"] = 10_000 + int(op["payload"]["i"])
                        rec.setdefault("durations_ms", {})["late"] = 1.0
                    model_write(op["file"], int(op["payload"]["i"]))
        finally:
            while stack:
                olog._end_log_capture(stack.pop()[1])
        got: Dict[str, List[int]] = {}
        for name, body in E.read_dir(os.path.join(root, "logs")).items():
            lines = body.decode("utf-8").split("\n")
            if lines[-1] != "":
                viol.append({"cls": "capture", "sig": "capture:unterminated-line", "detail": name})
            try:
                got[name] = [int(json.loads(x)["i"]) for x in lines[:-1]]
            except Exception as e:  # noqa: BLE001
                viol.append({"cls": "capture", "sig": "capture:unparsable-line", "detail": "%s: %r" % (name, e)})
        for name in sorted(set(got) | set(disk)):
            if got.get(name, []) != disk.get(name, []):
                g, d = got.get(name, []), disk.get(name, [])
                sig = "capture:lost-or-duplicated" if sorted(g) != sorted(d) else "capture:writer-order-broken"
                viol.append({"cls": "capture", "sig": sig, "detail": "%s holds records %s, the capture stack says %s; ops %s" % (
                    name, g, d, [(o["op"], o.get("file"), (o.get("payload") or {}).get("i"), o.get("flush")) for o in p["ops"]])})
                break
    return viol


def _resolve(o: Any) -> Any:
    if isinstance(o, dict):
        return {k: _resolve(v) for k, v in o.items()}
    if isinstance(o, list):
        return [_resolve(v) for v in o]
    if o == "$lone_surrogate":
        return "cut \ud83d here"
    return o


def execute(p: Dict[str, Any]) -> Dict[str, Any]:
    out = _execute(_resolve(p))
    out["key"] = E.jdigest([p, out.get("sched")])
    return out


def _execute(p: Dict[str, Any]) -> Dict[str, Any]:
    stats: Dict[str, int] = {"target_" + p["target"]: 1}
    sched_d = None
    t = p["target"]
    if t == "writers":
        viol, sched_d = _writers(p, stats)
        stats["evaluations"] = sum(len(w["records"]) for w in p["writers"])
        nontrivial = len(p["writers"]) > 1
    elif t == "stager":
        viol = _stager(p, stats)
        stats["evaluations"] = len(p["records"]) * len(p["limits"])
        nontrivial = bool(stats.get("backpressure_drains"))
    elif t == "normalise":
        viol = _normalise(p, stats)
        nontrivial = True
    elif t == "rewrite":
        viol = _rewrite(p, stats)
        nontrivial = True
    elif t == "capture":
        viol = _capture(p, stats)
        stats["evaluations"] = len(p["ops"])
        nontrivial = stats.get("max_depth", 0) >= 1
    else:
        viol = _rotation(p, stats)
        nontrivial = bool(stats.get("rotations"))
    faults = {"kill_during_rotation": stats.get("kills_fired", 0), "backpressure": stats.get("backpressure_drains", 0)}
    return {"violations": viol, "stats": stats, "faults": faults, "nontrivial": nontrivial, "key": None,
            "sched": sched_d, "sim_s": 0.0, "log": E.jdigest([json.loads(json.dumps(viol)), sched_d])}
