"""C01 - turn execution is reproducible byte-for-byte.

One program (world, validated config, turn/edit sequence) is executed in several
ENVIRONMENTS that differ only in nondeterminism the simulator owns:
  E0 steady clock, this interpreter (PYTHONHASHSEED=0)
  E1 perturbed wall clock / perf counter (slow, fast, jumps forward and back, skew, stall), wall clock far from ctx.now
  E2 another PYTHONHASHSEED in a separate interpreter (fresh on its first job, warm afterwards)
  E3 re-run in this (warm) interpreter
  E4 (configs with stage thread pools) two different seeded schedules of the worker threads
Oracle: utterances, canonical logs and snapshot bodies are byte-identical.
"""
from __future__ import annotations

import copy
import json
import os
from typing import Any, Dict, List, Optional

from vsim import use_repo

use_repo()

from vsim import engine as E  # noqa: E402
from vsim.child import Child, ChildError  # noqa: E402
from vsim.clock import SimClock  # noqa: E402
from vsim.rng import Rng  # noqa: E402
from vsim.scratch import Scratch  # noqa: E402
from vsim.sched import ParallelSeams  # noqa: E402
from vsim.fs import DirOrder  # noqa: E402

PROPERTY = "C01"
LEVEL = "exploration"
RUNS = {"quick": 2400, "thorough": 40000}
RULE = ("one run = seeded world (1-3 graphs, <=8 nodes, <=12 episodes incl. missing/garbled timestamps, 1-3 agents) + swarm config "
        "validated by the real validator + 2-8 ops (turns interleaved with graph/memory edits); executed in 4 environments "
        "(steady clock; perturbed clock profile; other PYTHONHASHSEED in a separate interpreter, fresh or warm; warm re-run) and "
        "compared byte for byte. non-trivial = at least one turn retrieved an episode or touched a node; distinct = digest of "
        "(world, config, ops)")
REAL = ["Orchestrator.run_turn and every stage it calls (T1, T2, T3 rule-based, T4, apply, GEL, snapshot writer, JSONL logs)",
        "configs/validate.py", "InMemoryGraphStore", "InMemoryIndex", "DeterministicEmbeddingAdapter"]
STUBS = ["time module of core/apply/snapshot/atomic (SimClock)", "datetime.now of memory.index / t2 (SimClock)",
         "TTL clocks of LRUCache/CacheManager (SimClock)", "second interpreter with another PYTHONHASHSEED as the process axis"]
ASSUMPTIONS = [
    "time-driven features are kept out of the perturbation as the property scopes them: scheduler wall/quantum budgets and the "
    "reflection wall budget are drawn >= 1e9 ms, cache TTLs are 0 (off) or >= 10^6 s in the clock-perturbed environments",
    "scheduler.jsonl is compared with consumed.ms masked; snapshot sidecars (.meta, wall-clock created_at) are not snapshot bodies",
    "LLM back ends, LanceDB and zstd are not exercised",
]
SHRINK_FIELDS = ["ops"]

PROFILES = ["slow", "fast", "jumpy", "backjump", "skew", "stall"]
_CHILDREN: Dict[str, Child] = {}
HASHSEEDS = ["1", "2", "3"]


def generate(seed: int, tier: str) -> Dict[str, Any]:
    rng = Rng(seed)
    r = rng.stream("gen")
    world = E.gen_world(rng.stream("world"), bad_ts=r.chance(0.3), with_gel=r.chance(0.4), naive_ts=r.chance(0.4))
    fams = ["t1", "t2", "t3", "t4", "kill"]
    for f, p in (("t1cache", 0.5), ("t2cache", 0.5), ("t4cache", 0.5), ("perfcache", 0.25), ("perfcaps", 0.2), ("graph", 0.4),
                 ("hybrid", 0.25), ("quality", 0.2)):
        if r.chance(p):
            fams.append(f)
    raw = E.valid_cfg(rng.stream("config"), fams, p=0.4)
    if r.chance(0.2):
        # a graph-evolution layer that really evolves within a handful of turns (edges learned, merged, split, promoted from
        # scratch, on a state the boot hook created): its records end up in the snapshot bodies that must be reproducible
        world.pop("gel", None)
        raw["graph"] = {"enabled": True, "coactivation_threshold": 0.0, "observe_top_k": r.choice([3, 64]), "pair_cap_per_obs": 2048,
                        "update": {"mode": "additive", "alpha": r.choice([0.5, 0.7])}, "decay": {"half_life_turns": 200, "floor": 0.0},
                        "merge": {"enabled": True, "min_size": 2, "min_avg_w": 0.0}, "split": {"enabled": r.chance(0.5), "weak_edge_thresh": 0.0},
                        "promotion": {"enabled": r.chance(0.7)}}
        raw.setdefault("t2", {}).update({"sim_threshold": -1.0, "k_retrieval": r.choice([3, 10])})
        raw["t2"].pop("tiers", None)
    # TTLs are time-driven by specification: keep them off or effectively infinite here (C05 varies them)
    for path in (["t1", "cache", "ttl_s"], ["t2", "cache", "ttl_s"], ["t4", "cache", "ttl_sec"]):
        cur = raw
        for k in path[:-1]:
            cur = cur.get(k, {}) if isinstance(cur, dict) else {}
        if isinstance(cur, dict) and path[-1] in cur and cur[path[-1]] not in (0,):
            cur[path[-1]] = 10_000_000
    for sec, key in (("t1", "ttl_s"), ("t2", "ttl_s")):
        raw.setdefault(sec, {}).setdefault("cache", {}).setdefault(key, 10_000_000)
    raw.setdefault("t4", {}).setdefault("cache", {}).setdefault("ttl_sec", 10_000_000)
    if r.chance(0.2):
        # stage-level thread pools (E4: schedule axis).  In half of these programs the shared stage caches are large enough
        # never to evict; in the other half they are tiny (1-2 entries), so that which entry is evicted - and with it the
        # cache counters of the canonical logs - would follow the worker schedule if any worker touched the cache
        # (the defect once recorded under C09 has been repaired in the tree: workers only propagate).
        raw.setdefault("perf", {}).setdefault("parallel", {}).update({"enabled": True, "t1": True, "t2": True, "max_workers": r.choice([2, 3, 8])})
        tiny = r.chance(0.5)
        for sec in ("t1", "t2"):
            c = raw.setdefault(sec, {}).setdefault("cache", {})
            if tiny:
                c["max_entries"] = r.choice([1, 2, 2])
            elif c.get("max_entries") in (0, 1, 2):
                c["max_entries"] = 512
        pc = raw.get("perf", {})
        for sec in ("t1", "t2"):
            if isinstance(pc.get(sec), dict):
                pc[sec].pop("cache", None)
    if r.chance(0.25):
        raw["scheduler"] = {"enabled": True, "quantum_ms": 1_000_000_000, "policy": r.choice(["round_robin", "fair_queue"]),
                            "budgets": {"wall_ms": 2_000_000_000, "t1_pops": r.choice([None, 0, 1, 3]), "t1_iters": r.choice([0, 1, 50]),
                                        "t2_k": r.choice([0, 1, 2, 64]), "t3_ops": r.choice([0, 1, 3])}}
    ops = E.gen_ops(rng.stream("ops"), world, r.randint(2, 8), turn_ids=r.choice(["seq", "seq", "rand"]))
    if r.chance(0.3):
        # the logical clock handed over as ctx.now_ms only (ctx.now unset), the way run_smoke_turn builds its context
        as_float = r.chance(0.4)
        as_fn = (not as_float) and r.chance(0.3)
        for o in ops:
            if o["op"] == "turn":
                o["with_now"] = False
                if as_float:
                    o["now_ms_float"] = True
                if as_fn:
                    o["now_ms_const_fn"] = True
    if r.chance(0.3):
        # fresh process in the middle of the sequence: state comes back from the snapshot directory (E5 varies the order in
        # which that directory is enumerated; tied time stamps are what a restore from backup / checkout leaves behind)
        turn_idx = [i for i, o in enumerate(ops) if o["op"] == "turn"]
        if len(turn_idx) >= 2:
            at = r.choice(turn_idx[1:])
            ops.insert(at, {"op": "restart", "tie_mtimes": r.chance(0.7)})
    if r.chance(0.08):
        # contention for a tiny shared T1 result cache under the stage thread pool: one agent, three graphs that each answer
        # to their own word, a two-entry cache, and turns that name two, then all three, then all three words again -
        # which entry the third graph's insertion evicts must not follow the worker schedule
        words = r.sample(["alpha", "beta", "gamma", "delta"], 3)
        ag = sorted(world["agents"])[0]
        world["graphs"] = {"g:%d" % i: {"nodes": [{"id": "s%d" % i, "label": w, "tags": []}, {"id": "t%d" % i, "label": "", "tags": []}],
                                        "edges": [{"id": "e%d" % i, "src": "s%d" % i, "dst": "t%d" % i, "weight": 0.8, "rel": "supports"}]}
                           for i, w in enumerate(words)}
        world["agents"] = {ag: sorted(world["graphs"])}
        raw.setdefault("perf", {})["enabled"] = True
        raw["perf"].setdefault("parallel", {}).update({"enabled": True, "t1": True, "t2": r.chance(0.5), "max_workers": r.choice([2, 3, 4])})
        raw["perf"].pop("t1", None)
        raw.setdefault("t1", {})["cache"] = {"max_entries": 2, "ttl_s": 10_000_000}
        raw["t1"].pop("queue_budget", None)
        raw.pop("scheduler", None)
        order = r.sample(words, 3)
        texts = [" ".join(order[1:]), " ".join(order), " ".join(r.sample(words, 3)), " ".join(r.sample(words, r.randint(1, 3)))]
        ops = [{"op": "turn", "agent": ag, "text": t, "turn_id": i, "now_ms": E.T0_MS + 1000 * i} for i, t in enumerate(texts)]
    force_profile = None
    if r.chance(0.06) and not any(o.get("op") == "restart" for o in ops):
        # a turn-level cache whose entries outlive their turn (no invalidation on apply) with a SHORT time-to-live, under a wall
        # clock that leaps: the keys carry the state version, which moves with every committed turn, so no entry is ever looked
        # up again - how many of them are still around must not show in any record
        raw.setdefault("t4", {}).update({"enabled": True, "cache_bust_mode": "none"})
        raw["t4"]["cache"] = {"enabled": True, "max_entries": 512, "ttl_sec": r.choice([1, 5])}
        raw.pop("scheduler", None)
        force_profile = "jumpy"
    # every turn carries the logical clock (ctx.now / ctx.now_ms): the property is stated for a given logical clock;
    # without one the engine documents a fall-back to the wall clock, which is not a reproducibility defect.
    return {"world": world, "cfg": raw, "ops": ops, "profile": force_profile or r.choice(PROFILES), "clock_seed": int(r.u64() % (1 << 31)),
            "hashseed": r.choice(HASHSEEDS),
            "wall_offset_days": r.choice([0, 1, 400, -400, 20000])}


def run_env(program: Dict[str, Any], env: str) -> Dict[str, Any]:
    """Execute the program once; returns artefacts with paths normalised."""
    if env == "E7":
        # the process's local time zone is environment too: same program, TZ far from UTC
        import time as _real_time
        saved_tz = os.environ.get("TZ")
        os.environ["TZ"] = "Pacific/Kiritimati"
        _real_time.tzset()
        try:
            return run_env(program, "E0")
        finally:
            if saved_tz is None:
                os.environ.pop("TZ", None)
            else:
                os.environ["TZ"] = saved_tz
            _real_time.tzset()
    if env == "E6":
        # a warm process: the same program already ran here, its process-global stage caches are still populated
        with Scratch() as root0:
            e0 = E.EngineEnv(root0, SimClock(None, "steady"))
            e0.leave_process_state = True
            with e0 as ee0:
                run0 = E.EngineRun(program["world"], program["cfg"], ee0)
                for op in program["ops"]:
                    if op.get("op") != "restart":
                        run0.step(op)
                    else:
                        run0.state = E.build_state(run0.world)
        return run_env(program, "E6b")
    if env == "E8":
        # a warm process that has served ANOTHER world before: same graphs, same number of memories under the same ids, other
        # texts and vectors; that engine state is dropped and collected before this program runs
        import gc
        other = copy.deepcopy(program["world"])
        orng = Rng(int(program["clock_seed"]) + 99).stream("other")
        for ep in other.get("episodes") or []:
            ep["text"] = " ".join(orng.sample(E.VOCAB, 2))
            if isinstance(ep.get("vec"), str) and ep["vec"] not in ("zero", "none"):
                ep["vec"] = "text"
        with Scratch() as root0:
            e0 = E.EngineEnv(root0, SimClock(None, "steady"))
            e0.leave_process_state = True
            with e0 as ee0:
                run0 = E.EngineRun(other, program["cfg"], ee0)
                for op in program["ops"]:
                    if op.get("op") != "restart":
                        run0.step(op)
                    else:
                        run0.state = E.build_state(run0.world)
                del run0
        gc.collect()
        return run_env(program, "E6b")
    rng = Rng(int(program["clock_seed"]))
    if env == "E1":
        clock = SimClock(rng.stream("clock"), program.get("profile", "slow"),
                         wall0_s=1_700_000_000.0 + 86400.0 * float(program.get("wall_offset_days", 0)))
    else:
        clock = SimClock(None, "steady")
    par = bool(((program["cfg"].get("perf") or {}).get("parallel") or {}).get("enabled"))
    sched_digest = None
    with Scratch() as root:
        with E.EngineEnv(root, clock, keep_process_state=(env == "E6b")) as ee, DirOrder(root, int(program["clock_seed"]) if env == "E5" else None):
            run = E.EngineRun(program["world"], program["cfg"], ee)
            nontrivial = False
            if par:
                # E4 uses a seeded schedule of the worker threads, every other environment the FIFO schedule
                seams = ParallelSeams(Rng(int(program["clock_seed"]) + (7 if env == "E4b" else 0)).stream("sched") if env.startswith("E4") else None)
                with seams as sched:
                    for op in program["ops"]:
                        run.step(op)
                    sched_digest = sched.digest() if sched.steps else None
            else:
                for op in program["ops"]:
                    run.step(op)
            art = run.artefacts()
            fired = dict(clock.fired)
            reads = clock.reads
    out: Dict[str, Any] = {"lines": art["lines"], "logs": {}, "snaps": {}}
    for n, txt in art["logs"].items():
        if n in E.CANON_STREAMS:
            out["logs"][n] = txt
        elif n == "scheduler.jsonl":
            masked = []
            for ln in txt.splitlines():
                try:
                    rec = json.loads(ln)
                    if isinstance(rec.get("consumed"), dict):
                        rec["consumed"]["ms"] = 0   # the one field of this stream the property lets vary
                    masked.append(json.dumps(rec, sort_keys=True))
                except Exception:
                    masked.append(ln)
            out["logs"][n] = "\n".join(masked)
    for n, txt in art["snaps"].items():
        if n.endswith(".json"):
            out["snaps"][n] = txt
    t2 = art["logs"].get("t2.jsonl", "")
    t1 = art["logs"].get("t1.jsonl", "")
    nontrivial = ('"k_returned": 0' not in t2 and bool(t2)) or ('"pops": 0' not in t1 and bool(t1))
    out["_meta"] = {"clock_fired": fired, "clock_reads": reads, "sim_s": clock.sim_seconds(), "nontrivial": bool(nontrivial),
                    "turns": len(art["lines"]), "streams": sorted(art["logs"]), "sched": sched_digest}
    return out


def _first_diff(a: Dict[str, Any], b: Dict[str, Any]) -> Optional[Dict[str, str]]:
    if a["lines"] != b["lines"]:
        for i, (x, y) in enumerate(zip(a["lines"], b["lines"])):
            if x != y:
                return {"artefact": "utterance", "where": "turn %d" % i, "a": repr(x)[:200], "b": repr(y)[:200]}
        return {"artefact": "utterance", "where": "count", "a": str(len(a["lines"])), "b": str(len(b["lines"]))}
    for kind in ("logs", "snaps"):
        names = sorted(set(a[kind]) | set(b[kind]))
        for n in names:
            x, y = a[kind].get(n), b[kind].get(n)
            if x == y:
                continue
            if x is None or y is None:
                return {"artefact": n, "where": "presence", "a": str(x is not None), "b": str(y is not None)}
            xl, yl = x.splitlines(), y.splitlines()
            for i, (p, q) in enumerate(zip(xl, yl)):
                if p != q:
                    # find first differing key for a stable signature
                    field = "?"
                    try:
                        jp, jq = json.loads(p), json.loads(q)
                        for k in sorted(set(jp) | set(jq)):
                            if jp.get(k) != jq.get(k):
                                field = k
                                break
                    except Exception:
                        pass
                    return {"artefact": n, "where": "line %d field %s" % (i, field), "field": field, "a": p[:300], "b": q[:300]}
            return {"artefact": n, "where": "length", "a": str(len(xl)), "b": str(len(yl))}
    return None


_CACHE_DIAG = ("cache_hits", "cache_misses", "cache_used", "cache_evictions", "cache_bytes", "cache_enabled", "cache_hit", "cache_size")


def _mask_cache_diagnostics(x: Dict[str, Any], y: Dict[str, Any]) -> Tuple[Dict[str, Any], Dict[str, Any]]:
    """Both artefact sets with the stage-cache counters zeroed; the T1 max-delta gauge is zeroed only in rows where one
    of the two sides was served from the cache (a served result reports 0.0 by specification)."""
    outs = ({"lines": x["lines"], "snaps": x["snaps"], "logs": {}}, {"lines": y["lines"], "snaps": y["snaps"], "logs": {}})
    for n in sorted(set(x["logs"]) | set(y["logs"])):
        tx, ty = x["logs"].get(n), y["logs"].get(n)
        if n not in ("t1.jsonl", "t2.jsonl") or tx is None or ty is None:
            for o, t in zip(outs, (tx, ty)):
                if t is not None:
                    o["logs"][n] = t
            continue
        lx, ly = tx.splitlines(), ty.splitlines()
        rx, ry = [], []
        for i in range(max(len(lx), len(ly))):
            recs = []
            for ls in (lx, ly):
                try:
                    recs.append(json.loads(ls[i]) if i < len(ls) else None)
                except Exception:
                    recs.append(ls[i])
            served = any(isinstance(r, dict) and (r.get("cache_hits") or r.get("cache_used")) for r in recs)
            for r, rows in zip(recs, (rx, ry)):
                if r is None:
                    continue
                if isinstance(r, dict):
                    for k in list(r):
                        if k in _CACHE_DIAG or k.startswith("t1.cache_") or k.startswith("t2.cache_"):
                            r[k] = 0
                    if served and n == "t1.jsonl":
                        # gauges that exist only for a fresh computation; a served result reports their zero value
                        for g in ("max_delta", "t1_frontier_evicted", "t1_dedup_hits", "t1_visited_evicted"):
                            if g in r:
                                r[g] = 0
                    rows.append(json.dumps(r, sort_keys=True))
                else:
                    rows.append(r)
        outs[0]["logs"][n] = "\n".join(rx)
        outs[1]["logs"][n] = "\n".join(ry)
    return outs


def execute(program: Dict[str, Any]) -> Dict[str, Any]:
    stats: Dict[str, int] = {}
    faults: Dict[str, int] = {}
    violations: List[Dict[str, Any]] = []
    base = run_env(program, "E0")
    envs = {}
    envs["clock:" + program.get("profile", "slow")] = run_env(program, "E1")
    envs["warm-rerun"] = run_env(program, "E0")
    if bool(((program["cfg"].get("perf") or {}).get("parallel") or {}).get("enabled")):
        envs["sched:a"] = run_env(program, "E4")
        envs["sched:b"] = run_env(program, "E4b")
    if any(o.get("op") == "restart" for o in program["ops"]):
        envs["dirorder"] = run_env(program, "E5")
        stats["restart_runs"] = 1
    envs["warmcaches"] = run_env(program, "E6")
    if program["world"].get("episodes"):
        envs["warmother"] = run_env(program, "E8")
    if any(isinstance(e.get("ts"), str) and e["ts"] and not e["ts"].endswith("Z") and "+" not in e["ts"] for e in program["world"].get("episodes") or []):
        envs["tz"] = run_env(program, "E7")
        stats["tz_runs"] = 1
    hs = str(program.get("hashseed", "1"))
    child = _CHILDREN.get(hs)
    if child is None:
        child = _CHILDREN[hs] = Child(hashseed=hs)
    try:
        res = child.call("checks.c01", "run_env", {"program": program, "env": "E0"})
        envs["hashseed:" + ("fresh" if res.pop("_fresh_interpreter", False) else "warm")] = res
    except ChildError as e:
        child.close()
        raise RuntimeError("child interpreter failed: %s" % str(e)[-1500:])
    for name, art in envs.items():
        stats["env_" + name.split(":")[0]] = stats.get("env_" + name.split(":")[0], 0) + 1
        stats["evaluations"] = stats.get("evaluations", 0) + 1
        for k, v in (art.get("_meta", {}).get("clock_fired") or {}).items():
            faults["clock_" + k] = faults.get("clock_" + k, 0) + int(v)
        if name.startswith("hashseed"):
            faults[name.replace(":", "_")] = faults.get(name.replace(":", "_"), 0) + 1
        d = _first_diff(base, art)
        if d is not None and name in ("warmcaches", "warmother"):
            # which part of the difference is stage-cache diagnostics (counters, the gauge that is only measured on a fresh
            # computation)?  Those are reported under ONE signature; anything beyond them under its own.
            d2 = _first_diff(*_mask_cache_diagnostics(base, art))
            if d2 is None:
                violations.append({"cls": "not-reproducible", "sig": "warmcaches:cache-diagnostics-only",
                                   "detail": "a warm process (stage caches populated by an earlier replay) logs different cache counters in %s (%s): %s  VS  %s" % (
                                       d["artefact"], d["where"], d["a"], d["b"])})
                continue
            d = d2
        if d is not None:
            axis = name.split(":")[0]
            sig = "%s:%s:%s" % (axis, d["artefact"], d.get("field", d["where"].split(" ")[0]))
            violations.append({"cls": "not-reproducible", "sig": sig,
                               "detail": "environment %s differs from the steady baseline in %s (%s): %s  VS  %s" % (
                                   name, d["artefact"], d["where"], d["a"], d["b"])})
    meta = base["_meta"]
    stats["turns"] = meta["turns"]
    stats["snapshots_compared"] = len(base["snaps"])
    for s in meta["streams"]:
        stats["stream_" + s] = stats.get("stream_" + s, 0) + 1
    return {"violations": violations, "stats": stats, "faults": faults, "nontrivial": meta["nontrivial"],
            "key": E.jdigest([program["world"], program["cfg"], program["ops"]]),
            "sim_s": sum(a["_meta"]["sim_s"] for a in envs.values()), "log": E.jdigest(base),
            "sched": "+".join(str(a["_meta"].get("sched")) for n, a in envs.items() if n.startswith("sched") and a["_meta"].get("sched")) or None}
