"""C06 - snapshots round-trip the state they were written from.

Histories of {write (agent, version, state), load-into-fresh-state, write-again from the loaded state, write killed at I/O
step k, write whose sidecar fails, clock advance/rewind between writes} on a scratch snapshot directory.  States carry a
weights-map store and GEL graphs in dict and list form, both edge orientations, unicode ids, NaN/inf/out-of-range weights,
stray fields and odd meta.
"""
from __future__ import annotations

import copy
import json
import math
import os
import types
from typing import Any, Dict, List, Optional

from vsim import use_repo

use_repo()

from vsim import engine as E  # noqa: E402
from vsim.clock import SimClock  # noqa: E402
from vsim.fs import FaultPlan, SimCrash, SimFS, materialise  # noqa: E402
from vsim.rng import Rng  # noqa: E402
from vsim.scratch import Scratch  # noqa: E402

import clematis.engine.snapshot as esnap  # noqa: E402

PROPERTY = "C06"
LEVEL = "exploration"
RUNS = {"quick": 3000, "thorough": 50000}
RULE = ("one run = bounds (t4.weight_min/max) + a history of 2-8 ops over {write, killed write, write with failing sidecar, load, clock "
        "advance/rewind}; each write carries a generated state (weights map; GEL nodes dict/list, edges dict/list in either orientation, "
        "unicode/dotted ids, NaN/+-inf/out-of-range weights, stray fields, odd meta). Every load is compared with the write that produced "
        "the chosen file, then written again and compared byte for byte; every killed write's power-loss states are fed to snapshot "
        "discovery. non-trivial = at least one load after a write with a non-empty GEL graph; distinct = digest of the program")
REAL = ["snapshot.write_snapshot, load_latest_snapshot, _pick_latest_snapshot_path, _sanitize_gel_for_write/_load, store export/import",
        "io/atomic.py under the writer"]
STUBS = ["file layer: SimFS (kill points, failing sidecar write, simulated mtimes)", "power-loss states: shadow disk model", "clock: SimClock"]
ASSUMPTIONS = ["at most one edge per unordered pair in the written state (GEL's own invariant)", "weights are numeric (what the engine produces)",
               "'latest' is what discovery picks by (simulated) mtime; the loaded state is compared with the write that produced that file"]
SHRINK_FIELDS = ["ops"]

IDS = ["a", "b", "c", "ü", "n.1", "日本", "x→y", "A", "l\u2028s", "n\x85l"]


def _gel(r) -> Any:
    form_nodes = r.choice(["dict", "list"])
    ids = r.sample(IDS, r.randint(0, 5))
    if form_nodes == "dict":
        nodes: Any = {i: {"id": i, "label": r.choice([None, "L", i]), **({"stray": r.choice([1, "x", [1]])} if r.chance(0.2) else {})} for i in ids}
    else:
        nodes = [{"id": i, "label": "L"} for i in ids]
    pairs = set()
    allow_dup = r.chance(0.2)  # two relations on one pair: accepted by the writer, collapsed per pair by design
    dup = [False]
    edges_l = []
    for _ in range(r.randint(0, 5)):
        if len(ids) < 1:
            break
        a, b = r.choice(ids), r.choice(ids)
        up = tuple(sorted((a, b)))
        if up in pairs and not allow_dup:
            continue
        if up in pairs:
            dup[0] = True
        pairs.add(up)
        w = r.weighted([(round(r.uniform(-1, 1), 7), 8), (float("nan"), 1), (float("inf"), 1), (float("-inf"), 1), (2.5, 1), (-7.0, 1), (0.1234567891, 2), (1e-9, 1),
                        (None, 1), ("heavy", 1), (10**400, 1)])
        rec = {"src": a, "dst": b, "rel": r.choice(["coact", "concept"]), "weight": w, "updated_at": r.choice([None, "2023-01-01T00:00:00Z"]),
               "attrs": r.choice([{}, {"coact": 2, "last_seen_turn": 1}])}
        if r.chance(0.2):
            rec["stray"] = "zzz"
        edges_l.append(rec)
    if r.chance(0.6):
        edges: Any = {}
        for rec in edges_l:
            a, b = rec["src"], rec["dst"]
            key = r.choice(["%s→%s" % (a, b), "%s→%s" % (b, a), "k%d" % len(edges)])
            edges[key] = dict(rec, id=key)
    else:
        edges = edges_l
    meta = r.choice([{}, {"schema": "v1.1", "merges": [{"nodes": ["a"]}], "splits": [], "promotions": [], "concept_nodes_count": 2},
                     {"merges": "oops", "concept_nodes_count": "3", "last_update": "t"}, {"schema": "v0"}])
    g = {"nodes": nodes, "edges": edges}
    if r.chance(0.8):
        g["meta"] = meta
    if dup[0]:
        g["_dup_pairs"] = True
    return g


def generate(seed: int, tier: str) -> Dict[str, Any]:
    rng = Rng(seed)
    r = rng.stream("gen")
    lo, hi = r.choice([(-1.0, 1.0), (-0.5, 0.5), (0.0, 1.0), (-1.0, 0.25), (0.2, 1.0), (-1.0, -0.25), (0.0001, 0.0002)])
    ops = []
    ver = 0
    for _ in range(r.randint(2, 8)):
        x = r.random()
        if x < 0.5 or not ops:
            ver += r.choice([1, 1, 3])
            kind = r.weighted([("write", 6), ("write_killed", 2), ("write_sidecar_fails", 1)])
            w = {"%s|%s|weight" % (r.choice(["node", "edge"]), r.choice(IDS)): r.choice([0.0, 1.0, -0.3333333333333333, 1e-17, 123456.789]) for _ in range(r.randint(0, 4))}
            ops.append({"op": kind, "agent": (r.choice(["a/b", "../esc", "a\\b", "100%", "x/../y"]) if r.chance(0.06) else r.choice(["Ambrose", "Bea", "ü"])), "version": r.choice([str(ver), "v%d" % ver]), "turn": r.choice([0, 1, ver]),
                        "weights": w, "gel": _gel(r), "kill_at": r.randint(0, 40), "applied": r.randint(0, 3),
                        "gel_field": r.choice(["graph", "graph", "gel"])})
        elif x < 0.62 and any(o["op"] == "write" for o in ops):
            # an agent snapshots again what it snapshotted before (nothing changed in between): same body, later write - the
            # directory's latest snapshot is this one all the same
            ops.append({"op": "clock", "ms": r.choice([5, 1000, 3_600_000])})
            ops.append(copy.deepcopy(r.choice([o for o in ops if o["op"] == "write"])))
            if r.chance(0.7):
                ops.append({"op": "load"})
        elif x < 0.8:
            ops.append({"op": "load"})
            if r.chance(0.2):
                # the fresh state carries a store the snapshot layer can neither export nor import (the runtime's own graph store):
                # version and GEL graph are restored all the same
                ops[-1]["fresh"] = "opaque"
        else:
            ops.append({"op": "clock", "ms": r.choice([1, 1000, 3_600_000, -5000, -86_400_000])})
    if not any(o["op"] == "load" for o in ops):
        ops.append({"op": "load"})
    # what an older build (or a restore) may have left in the directory: sidecars with another schema marker, for agents that
    # are about to be written again
    stale = sorted({o["agent"] for o in ops if o["op"].startswith("write") and "/" not in o["agent"] and "\\" not in o["agent"] and r.chance(0.25)})
    return {"wmin": lo, "wmax": hi, "ops": ops, "stale_sidecars": stale}


class _W:
    def __init__(self, w=None):
        self.w = dict(w or {})


def _expected_edges(gel: Any, lo: float, hi: float) -> Dict[str, Dict[str, Any]]:
    edges = gel.get("edges") if isinstance(gel, dict) else None
    recs = list(edges.values()) if isinstance(edges, dict) else list(edges or [])
    out = {}
    for rec in recs:
        a, b = str(rec["src"]), str(rec["dst"])
        try:
            w = float(rec["weight"])
        except (TypeError, ValueError, OverflowError):
            continue   # a record whose weight is no number at all (None, text, an integer beyond float range): no claim about THIS edge
        if math.isnan(w):
            w = 0.0    # "not a number" has no place on the scale; the documented stand-in is 0, clamped like any other value
        w2 = min(hi, max(lo, w))
        w2 = round(w2, 6) if math.isfinite(w2) else 0.0
        out["%s→%s" % ((a, b) if a <= b else (b, a))] = {"src": a, "dst": b, "rel": str(rec.get("rel", "coact")), "weight": w2}
    return out


def _expected_nodes(gel: Any) -> List[str]:
    nodes = gel.get("nodes") if isinstance(gel, dict) else None
    if isinstance(nodes, dict):
        return sorted(str(k) for k in nodes)
    return sorted(str(n.get("id")) for n in (nodes or []) if n.get("id"))


def execute(p: Dict[str, Any]) -> Dict[str, Any]:
    stats: Dict[str, int] = {}
    viol: List[Dict[str, Any]] = []
    nontrivial = False

    def bad(sig, detail):
        if not any(v["sig"] == sig for v in viol):
            viol.append({"cls": "snapshot", "sig": sig, "detail": detail})

    clock = SimClock(None, "steady")
    lo, hi = float(p["wmin"]), float(p["wmax"])
    with Scratch("snap") as root:
        with E.EngineEnv(root, clock) as ee:
            cfg = {"t4": {"snapshot_dir": ee.snap, "weight_min": lo, "weight_max": hi, "snapshot_every_n_turns": 1}}
            written: Dict[str, Dict[str, Any]] = {}  # file name -> last completed write
            span: Dict[str, Any] = {}                # file name -> (begin, end) of that write on the simulated wall clock
            for ag in p.get("stale_sidecars") or []:
                os.makedirs(ee.snap, exist_ok=True)
                with open(os.path.join(ee.snap, "state_%s.json.meta" % ag.replace("%", "%25")), "w", encoding="utf-8") as fh:
                    json.dump({"schema_version": "v0", "created_at": "2001-01-01T00:00:00Z", "note": "left by an older build"}, fh)
                stats["stale_sidecars"] = stats.get("stale_sidecars", 0) + 1
            for oi, op in enumerate(p["ops"]):
                stats["evaluations"] = stats.get("evaluations", 0) + 1
                k = op["op"]
                if k == "clock":
                    clock.advance(int(op["ms"]) * 1_000_000, mono=False)
                    continue
                if k.startswith("write"):
                    ctx = types.SimpleNamespace(cfg=cfg, config=cfg, agent_id=op["agent"], turn_id=op["turn"])
                    wmap = {tuple(kk.split("|")): v for kk, v in op["weights"].items()}
                    state = {"store": _W(wmap), op.get("gel_field", "graph"): copy.deepcopy(op["gel"])}
                    faults: List[Dict[str, Any]] = []
                    if k == "write_killed":
                        faults = [{"k": int(op["kill_at"]), "kind": "crash"}]
                    elif k == "write_sidecar_fails":
                        faults = [{"op": "replace", "path_end": ".meta", "nth": 0, "kind": "error", "errno": "ENOSPC", "times": -1}]
                    fs = SimFS(root, plan=FaultPlan(faults), clock=clock)
                    fs_path_end = ".meta"
                    killed = False
                    t_begin = int(clock.wall_ns)
                    with fs:
                        try:
                            path = esnap.write_snapshot(ctx, state, op["version"], applied=op["applied"], deltas=[])
                        except SimCrash:
                            killed = True
                            stats["kills_fired"] = stats.get("kills_fired", 0) + 1
                        except Exception as e:  # noqa: BLE001
                            bad("write-raised:%s:%s" % (k, type(e).__name__), "op#%d: %r" % (oi, e))
                            break
                    name = "state_%s.json" % op["agent"]
                    if not killed:
                        # the file must be a direct child of the snapshot directory, whatever the agent is called:
                        # discovery lists that directory only
                        name = os.path.basename(path)
                        if os.path.dirname(os.path.abspath(path)) != os.path.abspath(ee.snap):
                            bad("snapshot-written-outside-directory", "op#%d: agent %r -> %s" % (oi, op["agent"], os.path.relpath(path, root)))
                            break
                    else:
                        for cand in sorted(os.listdir(ee.snap)) if os.path.isdir(ee.snap) else []:
                            if cand.endswith(".json") and cand.startswith("state_"):
                                try:
                                    if json.load(open(os.path.join(ee.snap, cand), encoding="utf-8")).get("agent") == op["agent"]:
                                        name = cand
                                except Exception:
                                    pass
                    if k == "write_sidecar_fails":
                        stats["sidecar_faults_fired"] = stats.get("sidecar_faults_fired", 0) + sum(fs.plan.fired.values())
                    # when the file was (last) written, on the simulated wall clock: a completed write lies inside [begin, end]; after a
                    # killed one the file is the old or the new one and no claim is made about its age
                    span[name] = None if killed else (t_begin, int(clock.wall_ns))
                    if killed:
                        # discovery must never pick a temp or sidecar in any power-loss state
                        states, _ex = fs.shadow.crash_states(limit=120, stream=Rng(oi).stream("crash"))
                        seen = set()
                        for st in states:
                            names = tuple(sorted(n for n in st if n.startswith("snap/")))
                            if names in seen:
                                continue
                            seen.add(names)
                            with Scratch() as tmp:
                                materialise({n: st[n] for n in names}, tmp)
                                pick = esnap._pick_latest_snapshot_path(os.path.join(tmp, "snap"))
                                stats["discovery_on_crash_state"] = stats.get("discovery_on_crash_state", 0) + 1
                                if pick is not None:
                                    bn = os.path.basename(pick)
                                    if not (bn.startswith("state_") and bn.endswith(".json") and bn.count(".json") == 1):
                                        bad("discovery-picked-temp-or-sidecar", "op#%d: picked %r among %s" % (oi, bn, names))
                        # what is on the real disk now: old or new file (C08); re-learn it by reading
                        fp = os.path.join(ee.snap, name)
                        if os.path.exists(fp):
                            try:
                                body = json.load(open(fp, encoding="utf-8"))
                                if str(body.get("version_etag")) == str(op["version"]):
                                    written[name] = {"op": op, "body": open(fp, "rb").read()}
                            except Exception:
                                bad("killed-write-left-unreadable-file", "op#%d %s" % (oi, name))
                        continue
                    body = open(path, "rb").read()
                    try:
                        js = json.loads(body.decode("utf-8"))
                    except Exception as e:  # noqa: BLE001
                        bad("body-not-json", "op#%d: %r" % (oi, e))
                        break
                    if js.get("schema_version") != "v1":
                        bad("schema-marker-missing", "op#%d: schema_version=%r" % (oi, js.get("schema_version")))
                    gj = js.get("gel") or {}
                    if isinstance(gj.get("edges"), dict) and (gj.get("meta") or {}).get("edges_count") != len(gj["edges"]):
                        bad("edges-count-inconsistent", "op#%d: body declares %r edges and holds %d" % (oi, (gj.get("meta") or {}).get("edges_count"), len(gj["edges"])))
                    written[name] = {"op": op, "body": body}
                    mp = path + ".meta"
                    if k == "write" and os.path.exists(mp):
                        try:
                            mj = json.load(open(mp, encoding="utf-8"))
                            if mj.get("schema_version") != "v1":
                                bad("sidecar-schema-marker", "op#%d: sidecar says %r" % (oi, mj.get("schema_version")))
                        except Exception as e:  # noqa: BLE001
                            bad("sidecar-unreadable", "op#%d: %r" % (oi, e))
                    continue
                # ---- load ----
                opaque = op.get("fresh") == "opaque"
                fresh: Dict[str, Any] = {"store": (object() if opaque else _W()), "version_etag": None}
                if opaque:
                    stats["loads_into_opaque_store"] = stats.get("loads_into_opaque_store", 0) + 1
                ctx0 = types.SimpleNamespace(cfg=cfg, config=cfg, agent_id="loader", turn_id=0)
                try:
                    res = esnap.load_latest_snapshot(ctx0, fresh)
                except Exception as e:  # noqa: BLE001
                    bad("load-raised:%s" % type(e).__name__, "op#%d: %r" % (oi, e))
                    break
                if not written:
                    if res.get("loaded"):
                        bad("loaded-from-nothing", "op#%d: %s" % (oi, res))
                    continue
                if not res.get("path"):
                    bad("nothing-picked", "op#%d: directory holds %s" % (oi, sorted(os.listdir(ee.snap))))
                    continue
                bn = os.path.basename(res["path"])
                if bn not in written:
                    bad("discovery-picked-unknown-file", "op#%d: %r not among %s" % (oi, bn, sorted(written)))
                    continue
                # "latest" = written last: when one file was written clearly after all the others were finished, it is the one
                if all(span.get(n) is not None for n in written) and len(written) > 1:
                    newest = max(written, key=lambda n: span[n][0])
                    if all(span[newest][0] - span[n][1] >= 1_000_000 for n in written if n != newest):
                        stats["latest_decidable"] = stats.get("latest_decidable", 0) + 1
                        if bn != newest:
                            bad("discovery-picked-older-snapshot", "op#%d: picked %s although %s was written %.3f s after every other file was finished" % (
                                oi, bn, newest, min(span[newest][0] - span[n][1] for n in written if n != newest) / 1e9))
                            continue
                src = written[bn]["op"]
                ctxs = "op#%d loaded %s (written by %s v=%s)" % (oi, bn, src["agent"], src["version"])
                stats["loads"] = stats.get("loads", 0) + 1
                if str(fresh.get("version_etag")) != str(src["version"]):
                    bad("version-not-restored", "%s: state version %r" % (ctxs, fresh.get("version_etag")))
                want_w = {tuple(kk.split("|")): float(v) for kk, v in src["weights"].items()}
                if not opaque and fresh["store"].w != want_w:
                    bad("weights-not-restored", "%s: %s vs %s" % (ctxs, fresh["store"].w, want_w))
                g = fresh.get("graph") or {}
                want_e = _expected_edges(src["gel"], lo, hi)
                got_e = {kk: {"src": str(v.get("src")), "dst": str(v.get("dst")), "rel": str(v.get("rel")), "weight": v.get("weight")} for kk, v in (g.get("edges") or {}).items()}
                if want_e:
                    nontrivial = True
                if got_e != want_e and not (isinstance(src["gel"], dict) and src["gel"].get("_dup_pairs")):
                    dk = [kk for kk in sorted(set(got_e) | set(want_e)) if got_e.get(kk) != want_e.get(kk)][:3]
                    bad("gel-edges-not-restored", "%s: differing %s: loaded %s expected %s" % (ctxs, dk, [got_e.get(x) for x in dk], [want_e.get(x) for x in dk]))
                if sorted((g.get("nodes") or {}).keys()) != _expected_nodes(src["gel"]):
                    bad("gel-nodes-not-restored", "%s: %s vs %s" % (ctxs, sorted((g.get("nodes") or {}).keys()), _expected_nodes(src["gel"])))
                if fresh.get("gel") != fresh.get("graph"):
                    bad("gel-alias-differs", ctxs)
                if opaque:
                    continue   # (its re-snapshot cannot carry the weights: no fixpoint claim)
                # ---- write the loaded state again: must reproduce the body byte for byte ----
                ctx2 = types.SimpleNamespace(cfg=cfg, config=cfg, agent_id=src["agent"], turn_id=src["turn"])
                again_dir = os.path.join(root, "again")
                cfg2 = {"t4": dict(cfg["t4"], snapshot_dir=again_dir)}
                ctx2.cfg = ctx2.config = cfg2
                try:
                    p2 = esnap.write_snapshot(ctx2, fresh, str(fresh.get("version_etag")), applied=src["applied"], deltas=[])
                    b2 = open(p2, "rb").read()
                    if b2 != written[bn]["body"]:
                        j1, j2 = json.loads(written[bn]["body"]), json.loads(b2)
                        dk = [kk for kk in sorted(set(j1) | set(j2)) if json.dumps(j1.get(kk), sort_keys=True) != json.dumps(j2.get(kk), sort_keys=True)]
                        bad("rewrite-not-a-fixpoint:%s" % (dk[0] if dk else "formatting"),
                            "%s: second body differs in %s: %s VS %s" % (ctxs, dk, str(j1.get(dk[0]) if dk else "")[:200], str(j2.get(dk[0]) if dk else "")[:200]))
                except Exception as e:  # noqa: BLE001
                    bad("rewrite-raised:%s" % type(e).__name__, "%s: %r" % (ctxs, e))
                if viol:
                    break
    return {"violations": viol, "stats": stats, "faults": {"kill_during_write": stats.get("kills_fired", 0), "sidecar_enospc": stats.get("sidecar_faults_fired", 0)},
            "nontrivial": nontrivial, "key": E.jdigest(p), "sim_s": 0.0, "log": E.jdigest(viol)}
