"""C05 - caches are transparent: a hit equals a fresh computation.

One program, two arms under the same simulated clock:
  CACHED   the run's cache configuration (LRU+TTL sizes 0/1/2/512, byte-bounded under the perf gate, turn-level manager)
  UNCACHED all three layers switched off
Histories interleave turns with graph edits, memory additions, applies, agent switches, kill-switch toggles, configuration
changes, clock advances past TTLs and switches between two independent states living in the same process.
Oracle: per completed turn the stage results the orchestrator used (T1Result, T2Result) and the utterance are equal
in both arms, apart from cache diagnostics and max_delta; under owner_scope=agent no foreign episode is retrieved.
"""
from __future__ import annotations

import copy
import os
import json
from typing import Any, Dict, List, Optional, Tuple

from vsim import use_repo

use_repo()

from vsim import engine as E  # noqa: E402
from vsim.clock import SimClock  # noqa: E402
from vsim.rng import Rng  # noqa: E402
from vsim.scratch import Scratch  # noqa: E402
from vsim.sched import ParallelSeams  # noqa: E402

import clematis.engine.health as health  # noqa: E402

PROPERTY = "C05"
LEVEL = "exploration"
RUNS = {"quick": 3000, "thorough": 40000}
RULE = ("one run = seeded world pair (two states with equal shapes but different weights/labels/owners) + swarm cache configuration "
        "+ history of 4-12 ops over {turn, edge reweight/rewire, node relabel/add, edge add, add episode, kill-switch toggle, "
        "agent switch, state switch, clock advance past TTL, single config-knob change}; executed with caches on and with all "
        "caches off and compared per turn. non-trivial = the cached arm served at least one hit from some layer; distinct = digest "
        "of (worlds, config, ops)")
REAL = ["Orchestrator.run_turn, t1_propagate + its process-global cache, t2_semantic + its process-global cache, turn-level "
        "CacheManager, apply_changes invalidation, InMemoryGraphStore etag, InMemoryIndex version"]
STUBS = ["TTL clocks (SimClock through the time_fn parameter the caches already have)", "time module of core/apply/snapshot"]
ASSUMPTIONS = [
    "both arms see the same logical clock and the same simulated wall clock script; only the cache switches differ",
    "comparison is made on what the orchestrator hands to the health/turn roll-up at the end of every completed turn",
    "about a third of the runs switch the graph-evolution layer and the hybrid / quality rerank layers on (state that changes between turns)",
]
SHRINK_FIELDS = ["ops"]

LAYERS = ("t1", "t2stage", "turn")


def _variant_world(w: Dict[str, Any], r) -> Dict[str, Any]:
    """Same shape (ids, counts) but different content: what two independent states in one process look like."""
    v = copy.deepcopy(w)
    if r.chance(0.3):
        # the same graphs built in another order (equal content, different construction history): a second engine state
        # whose stores compare equal by content but iterate their adjacency lists differently
        for g in v["graphs"].values():
            r.shuffle(g["edges"])
            r.shuffle(g["nodes"])
        return v
    for g in v["graphs"].values():
        for e in g["edges"]:
            e["weight"] = r.choice([1.0, 0.0, -1.0, 0.4])
            e["dst"] = r.choice(g["nodes"])["id"]
        for n in g["nodes"]:
            n["label"] = r.choice(E.VOCAB)
    owners = sorted(v["agents"]) + ["world"]
    for ep in v["episodes"]:
        ep["owner"] = r.choice(owners)
        ep["text"] = " ".join(r.sample(E.VOCAB, r.randint(1, 3)))
    return v


CFG_CHANGES = [
    (["t2", "k_retrieval"], [1, 2, 5]), (["t2", "sim_threshold"], [-1.0, 0.0, 0.2]), (["t2", "owner_scope"], ["any", "agent", "world"]),
    (["t2", "ranking"], [{"alpha_sim": 0.0, "beta_recency": 1.0, "gamma_importance": 0.0}, {"alpha_sim": 1.0, "beta_recency": 0.0, "gamma_importance": 0.0}]),
    (["t2", "tiers"], [["archive"], ["exact_semantic"], ["cluster_semantic", "archive"]]), (["t2", "exact_recent_days"], [1, 365]),
    (["t2", "residual_cap_per_turn"], [0, 1, 32]), (["t2", "clusters_top_m"], [1, 3]),
    (["t1", "radius_cap"], [0, 1, 4]), (["t1", "iter_cap"], [1, 50]), (["t1", "queue_budget"], [1, 10000]), (["t1", "node_budget"], [0.5, 10.0]),
    (["t1", "decay"], [{"mode": "attn_quad", "alpha": 0.8}, {"mode": "exp_floor", "rate": 0.9, "floor": 0.0}]),
    (["t1", "edge_type_mult"], [{"supports": 0.1}, {"supports": 1.0, "associates": 1.0, "contradicts": 1.0, "mentions": 1.0}]),
    (["t3", "max_rag_loops"], [0, 1]), (["t4", "enabled"], [True, False]), (["t4", "cache_bust_mode"], ["none", "on-apply"]),
    # the perf master switch and the T1 caps it gates (a cached propagation must not survive a change of either)
    (["perf", "enabled"], [True, False]), (["perf", "enabled"], [True, False]),
    (["perf", "t1", "caps"], [{"frontier": 1}, {"visited": 1}, {"frontier": 2, "visited": 2}]), (["perf", "t1", "dedupe_window"], [1, 4]),
    (["perf", "metrics", "report_memory"], [True, False]),
    (["perf", "parallel"], [{"enabled": True, "t1": True, "t2": True, "max_workers": 3}, {"enabled": False}]),
    (["t2", "quality"], [{"enabled": True, "lexical": {"enabled": True}, "fusion": {"enabled": True, "alpha_semantic": 0.0}, "normalizer": {"enabled": True}},
                         {"enabled": True, "lexical": {"enabled": True}, "fusion": {"enabled": True, "alpha_semantic": 0.0}, "normalizer": {"enabled": False}},
                         {"enabled": True, "lexical": {"enabled": True}, "fusion": {"enabled": True, "alpha_semantic": 0.0},
                          "normalizer": {"enabled": True, "stemmer": "porter-lite", "min_token_len": 3}},
                         {"enabled": False}]),
]


def generate(seed: int, tier: str) -> Dict[str, Any]:
    rng = Rng(seed)
    r = rng.stream("gen")
    world = E.gen_world(rng.stream("world"), n_agents=r.randint(1, 3), bad_ts=False, odd_ids=r.chance(0.3))
    world_b = _variant_world(world, rng.stream("world_b"))
    fams = ["t1", "t2", "t3", "t1cache", "t2cache", "t4cache"]
    if r.chance(0.35):
        fams.append("perfcache")
    if r.chance(0.3):
        fams.append("kill")
    if r.chance(0.5):
        fams.append("t4")
    layered = r.chance(0.3)
    if layered:
        # the graph-evolution layer and the rerank layers read state that changes from turn to turn (co-activation
        # weights): a cached retrieval must not replay an ordering computed from an older graph
        fams += ["graph", "hybrid"] + (["quality"] if r.chance(0.4) else [])
    raw = E.valid_cfg(rng.stream("config"), fams, p=0.4)
    if layered:
        raw.setdefault("graph", {})["enabled"] = True
        raw.setdefault("t2", {}).setdefault("hybrid", {})["enabled"] = True
        raw["t2"]["hybrid"].setdefault("edge_threshold", r.choice([0.0, 0.05]))
        raw["t2"]["hybrid"].setdefault("lambda_graph", r.choice([0.25, 0.9]))
        raw["graph"].setdefault("coactivation_threshold", 0.0)
        raw["graph"].setdefault("update", {"mode": "additive", "alpha": r.choice([0.3, 0.7])})
    if r.chance(0.2):
        # stage thread pools in both arms: a cache entry must not be aliased/mutated by the parallel merge either
        raw.setdefault("perf", {}).setdefault("parallel", {}).update({"enabled": True, "t1": True, "t2": r.chance(0.5), "max_workers": r.choice([2, 4])})
    if r.chance(0.5):
        raw.setdefault("t2", {})["owner_scope"] = "agent"
    if r.chance(0.5):
        raw.setdefault("t2", {})["sim_threshold"] = r.choice([-1.0, -0.2])
    ro = rng.stream("ops")
    agents = sorted(world["agents"])
    gids = sorted(world["graphs"])
    texts = [E.gen_text(ro) for _ in range(r.randint(1, 3))]
    ops: List[Dict[str, Any]] = []
    now = E.T0_MS
    turn = 0
    nid = 0
    two_states = r.chance(0.3)
    n_ops = r.randint(4, 12)
    # "turn-cache focus": the turn-level version-keyed cache only survives from turn to turn while the version stands still
    # (T4 kill switch engaged); one agent then asks the same text at the same logical time while the configuration changes
    focus = r.chance(0.2)
    if focus:
        raw.setdefault("t4", {})["enabled"] = False
        agents = agents[:1]
        texts = texts[:1]
        if r.chance(0.4):
            # the same request in another spelling (case, padding): to the byte-hashing default encoder these are different
            # questions, whatever a cache key thinks of them
            texts = [texts[0], texts[0].title(), texts[0].upper(), "  " + texts[0] + " "][: r.randint(2, 4)]
            raw.setdefault("t2", {})["sim_threshold"] = -1.0
        raw.setdefault("perf", {})["enabled"] = True
    ms_only = r.chance(0.25)  # the logical clock handed over as ctx.now_ms only
    for _ in range(n_ops):
        if ops and ro.chance(0.45):
            kind = ro.choice(["cfg", "cfg", "cfg", "relabel", "add_episode", "reweight"]) if focus else \
                ro.choice(["reweight", "rewire", "relabel", "add_edge", "add_node", "add_episode", "cfg", "clock", "state"])
            gid = ro.choice(gids)
            g = world["graphs"][gid]
            if kind == "reweight" and g["edges"]:
                e = dict(ro.choice(g["edges"]))
                e["weight"] = ro.choice([0.0, 1.0, -1.0, 0.5])
                ops.append({"op": "upsert_edge", "gid": gid, "edge": e, "kind": "reweight"})
            elif kind == "rewire" and g["edges"]:
                e = dict(ro.choice(g["edges"]))
                e["dst"] = ro.choice(g["nodes"])["id"]
                ops.append({"op": "upsert_edge", "gid": gid, "edge": e, "kind": "rewire"})
            elif kind == "relabel":
                nd = dict(ro.choice(g["nodes"]))
                nd["label"] = ro.choice(E.VOCAB)
                ops.append({"op": "upsert_node", "gid": gid, "node": nd, "kind": "relabel"})
            elif kind == "add_edge":
                nid += 1
                ops.append({"op": "upsert_edge", "gid": gid, "kind": "add_edge",
                            "edge": {"id": "x%d" % nid, "src": ro.choice(g["nodes"])["id"], "dst": ro.choice(g["nodes"])["id"],
                                     "weight": ro.choice([1.0, 0.7]), "rel": ro.choice(E.RELS)}})
            elif kind == "add_node":
                nid += 1
                ops.append({"op": "upsert_node", "gid": gid, "kind": "add_node", "node": {"id": "xn%d" % nid, "label": ro.choice(E.VOCAB), "tags": []}})
            elif kind == "add_episode":
                nid += 1
                # a quarter of the additions re-use the id of an episode that is already stored, with other content
                # (a replayed reflection write, a re-import): still a memory addition, still a new answer
                eid = "xe%d" % nid
                if ro.chance(0.25):
                    known = [e["id"] for e in (world.get("episodes") or [])] + [o["ep"]["id"] for o in ops if o.get("op") == "add_episode"]
                    if known:
                        eid = ro.choice(known)
                ops.append({"op": "add_episode", "kind": "add_episode",
                            "ep": {"id": eid, "owner": ro.choice(agents + ["world"]), "text": " ".join(ro.sample(E.VOCAB, ro.randint(1, 3))),
                                   "ts": E.iso_from_ms(now - ro.choice([0, 86_400_000, 40 * 86_400_000])).replace("+00:00", "Z"), "vec": "text"}})
            elif kind == "cfg":
                path, vals = ro.choice(CFG_CHANGES)
                ops.append({"op": "set_cfg", "path": path, "value": ro.choice(vals), "kind": "cfg:" + ".".join(path)})
            elif kind == "clock":
                ops.append({"op": "advance_clock", "ms": ro.choice([500, 1500, 2000, 400_000, 700_000]), "kind": "clock"})
            elif kind == "state" and two_states:
                ops.append({"op": "fork_state", "kind": "state"} if ro.chance(0.3) else {"op": "switch_state", "kind": "state"})
            continue
        now += ro.choice([0, 0, 0, 40 * 86_400_000]) if focus else ro.choice([0, 1, 1000, 3_600_000, 6 * 3_600_000, 12 * 3_600_000, 86_400_000])
        ops.append({"op": "turn", "agent": ro.choice(agents), "text": ro.choice(texts), "turn_id": turn, "now_ms": now})
        if ms_only:
            ops[-1]["with_now"] = False
        turn += 1
    if r.chance(0.12):
        # A/B/A over ONE configuration knob around the same question at the same logical time: whatever the knob feeds into a stage
        # result has to be part of every cache key on the way
        qa = {"enabled": True, "lexical": {"enabled": True}, "fusion": {"enabled": True, "alpha_semantic": 0.0}, "normalizer": {"enabled": True}}
        knob, va, vb = r.choice([
            (["t2", "quality"], qa, dict(qa, normalizer={"enabled": False})),
            (["t2", "quality"], qa, dict(qa, normalizer={"enabled": True, "stemmer": "porter-lite", "min_token_len": 4})),
            (["t2", "quality"], qa, dict(qa, aliasing={"enabled": True, "max_expansions_per_token": 2})),
            (["t2", "quality"], qa, dict(qa, lexical={"enabled": True, "bm25_k1": 0.1, "bm25_b": 0.0})),
            (["t2", "quality"], qa, dict(qa, mmr={"enabled": True, "lambda": 0.1, "k": 2})),
            (["t2", "hybrid"], {"enabled": False}, {"enabled": True, "edge_threshold": 0.0, "lambda_graph": 0.9}),
            (["perf", "t2", "precompute_norms"], False, True),
            (["perf", "t2", "embed_store_dtype"], "fp32", "fp16"),
            (["perf", "t2", "reader", "partitions"], {"enabled": True, "layout": "none", "path": "./t2store"}, {"enabled": True, "layout": "none", "path": "./t2store_b"}),
            (["t2", "ranking"], {"alpha_sim": 1.0, "beta_recency": 0.0, "gamma_importance": 0.0}, {"alpha_sim": 0.0, "beta_recency": 0.0, "gamma_importance": 1.0}),
            (["t1", "edge_type_mult"], {"supports": 1.0, "associates": 0.6, "contradicts": 0.8}, {"supports": 0.1, "associates": 0.1, "contradicts": 0.1}),
        ])
        agent, text = ro.choice(sorted(world["agents"])), ro.choice(texts if texts else ["apple river"])
        raw.setdefault("t2", {})["sim_threshold"] = -1.0
        E._set_path(raw, list(knob), copy.deepcopy(va))
        if knob[0] == "perf":
            raw.setdefault("perf", {})["enabled"] = True
            raw["t2"]["owner_scope"] = "any"
            if knob[-1] in ("precompute_norms", "embed_store_dtype"):
                raw["perf"]["metrics"] = {"report_memory": True}   # the gate under which T2 reports these two settings
        if r.chance(0.5):
            raw.setdefault("t4", {})["enabled"] = False
        ops = []
        for i, val in enumerate([None, vb, va, vb]):
            if val is not None:
                ops.append({"op": "set_cfg", "path": list(knob), "value": copy.deepcopy(val), "kind": "cfg:" + ".".join(knob)})
            ops.append({"op": "turn", "agent": agent, "text": text, "turn_id": i, "now_ms": E.T0_MS})
    elif r.chance(0.08):
        # a what-if branch: the engine state is deep-copied after a first turn, both copies then learn something different
        # (same NUMBER of additions) and are asked the same question
        agent, text = ro.choice(sorted(world["agents"])), ro.choice(texts if texts else ["apple river"])
        raw.setdefault("t2", {})["sim_threshold"] = -1.0
        raw["t2"]["owner_scope"] = r.choice(["any", "agent"])
        def ep(tag):
            return {"op": "add_episode", "kind": "add_episode", "ep": {"id": "fork-%s" % tag, "owner": agent, "text": text + " " + tag,
                                                                          "ts": E.iso_from_ms(E.T0_MS - 1000).replace("+00:00", "Z"), "vec": "text:" + text}}
        t = lambda i: {"op": "turn", "agent": agent, "text": text, "turn_id": i, "now_ms": E.T0_MS}  # noqa: E731
        ops = [t(0), {"op": "fork_state", "kind": "state"}, ep("left"), t(1), {"op": "switch_state", "kind": "state"}, ep("right"), t(2),
               {"op": "switch_state", "kind": "state"}, t(3)]
    if r.chance(0.06) and len(world.get("episodes") or []) >= 3:
        # a co-activation graph that only DECAYS between identical questions (nothing is observed again: the observation threshold
        # is out of reach): edge weights cross the reranker's edge threshold from one turn to the next
        agent, text = sorted(world["agents"])[0], ro.choice(texts if texts else ["apple river"])
        ids = [e["id"] for e in world["episodes"]]
        ge = {}
        for _ in range(r.randint(2, 5)):
            a, b = r.sample(ids, 2)
            s, d = (a, b) if a <= b else (b, a)
            ge["%s\u2192%s" % (s, d)] = {"id": "%s\u2192%s" % (s, d), "src": s, "dst": d, "weight": r.choice([0.21, 0.3, 0.45, 0.9]), "rel": "coact",
                                         "updated_at": None, "attrs": {"coact": 3, "last_seen_turn": 0}}
        for w in (world, world_b):
            w["gel"] = {"nodes": {}, "edges": copy.deepcopy(ge), "meta": {"schema": "v1.1", "merges": [], "splits": [], "promotions": [],
                                                                           "concept_nodes_count": 0, "edges_count": len(ge)}}
            for e in w.get("episodes") or []:
                e["owner"] = e.get("owner") if e.get("owner") in ("world",) else agent
        raw["graph"] = {"enabled": True, "coactivation_threshold": 1.0, "decay": {"half_life_turns": r.choice([1, 2]), "floor": 0.0},
                        "update": {"mode": "additive", "alpha": 0.3}}
        raw.setdefault("t2", {}).update({"sim_threshold": -1.0, "owner_scope": "any",
                                         "hybrid": {"enabled": True, "edge_threshold": 0.2, "lambda_graph": 0.9, "anchor_top_m": 3}})
        raw["t2"]["cache"] = {"max_entries": 512, "ttl_s": 10_000_000}
        raw["t2"].pop("quality", None)
        raw.setdefault("t4", {})["enabled"] = True
        raw.pop("scheduler", None)
        ops = [{"op": "turn", "agent": agent, "text": text, "turn_id": i, "now_ms": E.T0_MS} for i in range(r.randint(3, 5))]
    if r.chance(0.06) and len(world.get("episodes") or []) >= 1:
        # the memory emptied and refilled with as many OTHER episodes as it held (a re-import): the same question at the same
        # logical time, before and after - whatever names the memory's content in a cache key has to tell the two apart
        agent, text = sorted(world["agents"])[0], ro.choice(texts if texts else ["apple river"])
        raw.setdefault("t2", {}).update({"sim_threshold": -1.0, "owner_scope": r.choice(["any", "agent"])})
        raw.setdefault("t4", {})["enabled"] = r.chance(0.5)
        n_eps = len(world["episodes"])
        t = lambda i: {"op": "turn", "agent": agent, "text": text, "turn_id": i, "now_ms": E.T0_MS}  # noqa: E731
        ops = [t(0), {"op": "clear_memory", "kind": "clear_memory"}]
        for j in range(n_eps):
            ops.append({"op": "add_episode", "kind": "add_episode",
                        "ep": {"id": "re%02d" % j, "owner": r.choice(sorted(world["agents"]) + ["world"]), "text": " ".join(r.sample(E.VOCAB, r.randint(1, 3))),
                               "ts": E.iso_from_ms(E.T0_MS - 1000).replace("+00:00", "Z"), "vec": "text"}})
        ops.append(t(1))
    tagged = [(g, n) for g in sorted(world["graphs"]) for n in world["graphs"][g]["nodes"]
              if n.get("label") and [t for t in (n.get("tags") or []) if t.lower() != n["label"].lower()]]
    if r.chance(0.1) and tagged:
        # the same seed SET reached through other keywords (a node matched by its label on one turn, by a tag on the next), with
        # the performance layer's push-dedupe window and a tight queue budget: a result may depend on more than the set
        g, na = r.choice(tagged)
        agent = sorted(world["agents"])[0]
        for w in (world, world_b):
            w["agents"][agent] = sorted(set(w["agents"][agent]) | {g})
        others = [n["label"] for n in world["graphs"][g]["nodes"] if n.get("label") and n["id"] != na["id"]]
        extra = r.sample(others, min(len(others), r.randint(1, 3)))
        tag = r.choice([t for t in na["tags"] if t.lower() != na["label"].lower()])
        t1s = " ".join([na["label"].lower()] + [x.lower() for x in extra])
        t2s = " ".join([x.lower() for x in extra] + [tag.lower()])
        raw.setdefault("perf", {})["enabled"] = True
        raw["perf"].setdefault("t1", {})["dedupe_window"] = r.choice([1, 2, 3])
        raw["perf"].pop("parallel", None)
        raw.setdefault("t1", {})["cache"] = {"enabled": True, "max_entries": 512, "ttl_s": 10_000_000}
        raw["t1"]["queue_budget"] = r.choice([2, 3, 4, 10000])
        raw.setdefault("t4", {})["enabled"] = False
        raw.pop("scheduler", None)
        seq = r.choice([[t1s, t2s, t1s], [t2s, t1s], [t1s, t2s]])
        ops = [{"op": "turn", "agent": agent, "text": t, "turn_id": i, "now_ms": E.T0_MS} for i, t in enumerate(seq)]
    if r.chance(0.08) and len(world["graphs"]) >= 2:
        # slice budgets shared by the graphs of one turn: what is left for a later graph depends on what the earlier ones used, so the
        # same graph with the same seeds is propagated under different caps from turn to turn (the version stands still: T4 off)
        agent = sorted(world["agents"])[0]
        gl = sorted(world["graphs"])
        for w in (world, world_b):
            w["agents"][agent] = list(gl)
        labelled = {g: [n["label"] for n in world["graphs"][g]["nodes"] if n.get("label")] for g in gl}
        last = gl[-1]
        if labelled[last] and any(labelled[g] for g in gl[:-1]):
            t_last = " ".join(r.sample(labelled[last], min(len(labelled[last]), r.randint(1, 3)))).lower()
            t_all = " ".join([r.choice(labelled[g]).lower() for g in gl[:-1] if labelled[g]] + [t_last])
            raw["scheduler"] = {"enabled": True, "quantum_ms": 10**9, "budgets": dict({"wall_ms": 2 * 10**9}, **r.choice(
                [{"t1_pops": 1}, {"t1_pops": 2}, {"t1_pops": 3}, {"t1_pops": 5}, {"t1_iters": 1}, {"t1_iters": 2}, {"t1_pops": 4, "t1_iters": 2}]))}
            raw.setdefault("t1", {})["cache"] = {"enabled": True, "max_entries": 512, "ttl_s": 10_000_000}
            raw.setdefault("t4", {})["enabled"] = False
            seq = r.choice([[t_all, t_last, t_all], [t_last, t_all, t_last], [t_all, t_last, t_last, t_all]])
            ops = [{"op": "turn", "agent": agent, "text": t, "turn_id": i, "now_ms": E.T0_MS} for i, t in enumerate(seq)]
    return {"world": world, "world_b": world_b, "cfg": raw, "ops": ops}


def _uncached_overrides(raw: Dict[str, Any], keep: Tuple[str, ...] = ()) -> Dict[str, Any]:
    raw = copy.deepcopy(raw)
    if "t1" not in keep:
        E._set_path(raw, ["t1", "cache", "enabled"], False)
        E._del_path(raw, ["perf", "t1", "cache"])
    if "t2stage" not in keep:
        E._set_path(raw, ["t2", "cache", "enabled"], False)
        E._del_path(raw, ["perf", "t2", "cache"])
    if "turn" not in keep:
        E._set_path(raw, ["t4", "cache", "enabled"], False)
    return raw


class _Arm(E.EngineRun):
    def __init__(self, world, world_b, raw, env, keep: Optional[Tuple[str, ...]]):
        self.keep = keep
        super().__init__(world, raw, env)
        self.states = [self.state, E.build_state(world_b)]
        self.cur = 0

    def _mk_cfg(self):
        saved = self.raw_cfg
        if self.keep is not None:
            self.raw_cfg = _uncached_overrides(saved, self.keep)
        try:
            return super()._mk_cfg()
        finally:
            self.raw_cfg = saved

    def step(self, op):
        if op["op"] == "switch_state":
            self.cur = 1 - self.cur
            self.state = self.states[self.cur]
            return None
        if op["op"] == "fork_state":
            # the other engine state becomes a deep copy of the current one (a checkpoint / what-if branch); the two then diverge
            other = 1 - self.cur
            st = self.states[self.cur]
            mgr = st.pop("_cache_mgr", None) if isinstance(st, dict) else None
            try:
                self.states[other] = copy.deepcopy(st)
            finally:
                if mgr is not None:
                    st["_cache_mgr"] = mgr
            return None
        return super().step(op)


def _run_arm(program: Dict[str, Any], keep: Optional[Tuple[str, ...]], stats: Optional[Dict[str, int]] = None) -> List[Dict[str, Any]]:
    """keep=None -> the run's own cache config; keep=() -> all caches off; keep=('t1',) -> only that layer."""
    clock = SimClock(None, "steady")
    observed: List[Dict[str, Any]] = []
    cur: Dict[str, Any] = {}

    def spy(ctx, state, t1, t2, t4, apply, log_fn):
        cur["t1"] = E.t1_view(t1)
        tv = E.t2_view(t2)
        tv.pop("tier_sequence", None)
        cur["t2"] = tv
        cur["t1_hits"] = int((getattr(t1, "metrics", {}) or {}).get("cache_hits", 0) or 0)
        # ids may be stored more than once (a re-used id under another owner): a hit is judged by its own owner when it
        # carries one, else it is a leak only if NO stored episode of that id belongs to the agent
        owners: Dict[str, List[Any]] = {}
        for e in getattr(state.get("mem_index"), "_eps", []):
            owners.setdefault(str(e.get("id")), []).append(e.get("owner"))
        me = getattr(ctx, "agent_id", None)
        cur["owners"] = []
        for x in getattr(t2, "retrieved", []) or []:
            own = getattr(x, "owner", None)
            if own is None:
                cands = owners.get(str(getattr(x, "id", None))) or [None]
                own = me if me in cands else cands[-1]
            cur["owners"].append(own)
        return orig(ctx, state, t1, t2, t4, apply, log_fn)

    orig = health.check_and_log
    with Scratch() as root:
        with E.EngineEnv(root, clock) as ee:
            health.check_and_log = spy
            par = bool(((program["cfg"].get("perf") or {}).get("parallel") or {}).get("enabled"))
            seams = ParallelSeams(None) if par else None
            if seams is not None:
                seams.__enter__()
            try:
                if "t2store" in json.dumps(program["ops"]) + json.dumps(program["cfg"]):
                    # two embedding stores on the scratch disk: the first and the second half of the memory
                    from clematis.engine.util.embed_store import write_shard
                    import numpy as _np
                    eps0 = [e for e in (program["world"].get("episodes") or []) if E.episode_vec(e.get("vec", "text"), e.get("text", "")) is not None]
                    if len(eps0) >= 2:
                        half = len(eps0) // 2
                        for dname, part in (("t2store", eps0[:half]), ("t2store_b", eps0[half:])):
                            write_shard(os.path.join(root, dname), [e["id"] for e in part],
                                        _np.stack([_np.asarray(E.episode_vec(e.get("vec", "text"), e.get("text", "")), dtype=_np.float32) for e in part]),
                                        dtype="fp32", precompute_norms=True)
                arm = _Arm(program["world"], program["world_b"], program["cfg"], ee, keep)
                for op in program["ops"]:
                    cur.clear()
                    res = arm.step(op)
                    if op["op"] == "turn":
                        scope = str((arm.cfg.get("t2") or {}).get("owner_scope", "any")).lower()
                        observed.append({"t1": cur.get("t1"), "t2": cur.get("t2"), "utter": getattr(res, "line", None),
                                         "owners": cur.get("owners"), "scope": scope, "agent": op["agent"],
                                         "t1_hits": cur.get("t1_hits", 0)})
                if stats is not None and keep is None:
                    import clematis.engine.stages.t1 as t1m
                    import clematis.engine.stages.t2.cache as t2c
                    cm = arm.states[0].get("_cache_mgr")
                    turn_hits = int(cm.stats.get("hits", 0)) if cm is not None else 0
                    cm2 = arm.states[1].get("_cache_mgr")
                    turn_hits += int(cm2.stats.get("hits", 0)) if cm2 is not None else 0
                    t2h = 0
                    c2 = t2c._T2_CACHE
                    inner = getattr(c2, "_inner", c2)
                    try:
                        t2h = int(inner.stats.get("hits", 0)) if hasattr(inner, "stats") else 0
                    except Exception:
                        t2h = 0
                    stats["hits_turn_level"] = stats.get("hits_turn_level", 0) + turn_hits
                    stats["hits_t2_stage"] = stats.get("hits_t2_stage", 0) + t2h
                    stats["hits_t1"] = stats.get("hits_t1", 0) + sum(o["t1_hits"] for o in observed)
                    stats["_any_hit"] = int(turn_hits + t2h + sum(o["t1_hits"] for o in observed) > 0)
            finally:
                health.check_and_log = orig
                if seams is not None:
                    seams.__exit__(None, None, None)
    return observed


def _only_diff(a: Any, b: Any) -> Tuple[str, str]:
    """The parts of two stage views that differ (for the report)."""
    if isinstance(a, dict) and isinstance(b, dict):
        ka = {k: a.get(k) for k in sorted(set(a) | set(b)) if a.get(k) != b.get(k)}
        kb = {k: b.get(k) for k in ka}
        if len(ka) == 1:
            (k, va), = ka.items()
            sa, sb = _only_diff(va, kb[k])
            return "%s: %s" % (k, sa), "%s: %s" % (k, sb)
        return str(ka), str(kb)
    return str(a), str(b)


def _diff(a: List[Dict[str, Any]], b: List[Dict[str, Any]]) -> Optional[Tuple[int, str, Any, Any]]:
    for i, (x, y) in enumerate(zip(a, b)):
        for f in ("t1", "t2", "utter"):
            if x.get(f) != y.get(f):
                return i, f, x.get(f), y.get(f)
    return None


def _leak(obs: List[Dict[str, Any]]) -> Optional[Tuple[int, str]]:
    for i, o in enumerate(obs):
        if o.get("scope") == "agent":
            for ow in o.get("owners") or []:
                if ow != o["agent"]:
                    return i, "agent %s received an episode owned by %r" % (o["agent"], ow)
    return None


def _check(program: Dict[str, Any], keep: Optional[Tuple[str, ...]], stats=None):
    cached = _run_arm(program, keep, stats)
    plain = _run_arm(program, ())
    return _diff(cached, plain), _leak(cached), _leak(plain), cached, plain


def _via(ops: List[Dict[str, Any]]) -> List[str]:
    kinds = {op.get("kind", op["op"]) for op in ops if op["op"] != "turn"}
    turns = [op for op in ops if op["op"] == "turn"]
    if len({op["agent"] for op in turns}) > 1:
        kinds.add("agent-switch")
    if len({op["now_ms"] for op in turns}) > 1:
        kinds.add("now-change")
    if len({op["text"] for op in turns}) > 1:
        kinds.add("text-change")
    return sorted(kinds)


def _explain(program: Dict[str, Any], field: str) -> Tuple[Dict[str, Any], str]:
    """Necessary-feature ablation: smallest history + which layers reproduce it alone."""
    def bad(p, keep=None) -> bool:
        d, lk, _lp, _c, _u = _check(p, keep)
        if field == "leak":
            return lk is not None
        return d is not None and d[1] == field

    def drop_ops(ops):
        i = len(ops) - 1
        while i >= 0:
            cand = dict(program)
            cand["ops"] = ops[:i] + ops[i + 1:]
            if cand["ops"] and bad(cand):
                ops = cand["ops"]
            i -= 1
        return ops

    ops = drop_ops(list(program["ops"]))
    # equalise incidental differences between the remaining turns
    for attr in ("agent", "now_ms", "text"):
        turns = [o for o in ops if o["op"] == "turn"]
        if len({o[attr] for o in turns}) <= 1:
            continue
        for ref in (turns[-1][attr], turns[0][attr]):
            cand_ops = [dict(o, **{attr: ref}) if o["op"] == "turn" else o for o in ops]
            cand = dict(program)
            cand["ops"] = cand_ops
            if bad(cand):
                ops = cand_ops
                break
    ops = drop_ops(ops)
    small = dict(program)
    small["ops"] = ops
    layers = [L for L in LAYERS if bad(small, (L,))]
    sig = "%s|layers=%s|via=%s" % (field, "+".join(layers) or "combo", ",".join(_via(ops)) or "none")
    return small, sig


def execute(program: Dict[str, Any]) -> Dict[str, Any]:
    stats: Dict[str, int] = {}
    violations: List[Dict[str, Any]] = []
    d, leak_c, leak_p, cached, plain = _check(program, None, stats)
    any_hit = bool(stats.pop("_any_hit", 0))
    stats["turns"] = len(cached)
    stats["evaluations"] = 1
    for op in program["ops"]:
        k = "op_" + str(op.get("kind", op["op"])).split(":")[0]
        stats[k] = stats.get(k, 0) + 1
    if leak_p is not None:
        violations.append({"cls": "owner-scope", "sig": "leak-uncached", "detail": "caches off, turn %d: %s" % leak_p})
    if d is not None:
        i, field, a, b = d
        small, sig = _explain(program, field)
        violations.append({"cls": "cache-not-transparent", "sig": sig, "program": small,
                           "detail": "turn #%d (%s): %s with caches on = %s ; with caches off = %s" % (
                               i, program["ops"] and [o for o in program["ops"] if o["op"] == "turn"][i].get("text"), field,
                               _only_diff(a, b)[0][:400], _only_diff(a, b)[1][:400])})
    elif leak_c is not None and leak_p is None:
        small, sig = _explain(program, "leak")
        violations.append({"cls": "owner-scope", "sig": sig, "program": small, "detail": "caches on, turn %d: %s" % leak_c})
    faults = {"clock_advance": stats.get("op_clock", 0), "state_switch": stats.get("op_state", 0)}
    return {"violations": violations, "stats": stats, "faults": faults, "nontrivial": any_hit,
            "key": E.jdigest([program["world"], program["world_b"], program["cfg"], program["ops"]]),
            "sim_s": 0.0, "log": E.jdigest([cached, plain])}
