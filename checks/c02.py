"""C02 - features behind a closed gate are inert.

Arm B  : validated base configuration that omits the gated subtree(s).
Arm B+ : B plus generated, validator-accepted values inside one or more gated-OFF subtrees.
Both arms run the same ops on the same world under the same simulated clock.  Oracle: utterances, every file of
the log directory, every snapshot body and a deep digest of the engine state after every op are equal, and no
artefact of a gated feature is ever created (observed through the file system of the run).
"""
from __future__ import annotations

import copy
import os
from typing import Any, Dict, List, Optional

from vsim import use_repo

use_repo()

from vsim import engine as E  # noqa: E402
from vsim.clock import SimClock  # noqa: E402
from vsim.rng import Rng  # noqa: E402
from vsim.scratch import Scratch  # noqa: E402

PROPERTY = "C02"
LEVEL = "exploration"
RUNS = {"quick": 3000, "thorough": 40000}
RULE = ("one run = seeded world where the gated code would have work (GEL edges, several graphs, memory, reflection requested by the "
        "plan) + validated base config B + 1-3 gated-off subtrees filled with generated validator-accepted values (B+), 2-6 ops; "
        "both arms executed and compared after every op. non-trivial = B+ differs from B after normalisation and at least one turn "
        "retrieved or propagated something; distinct = digest of (world, B, junk, ops)")
REAL = ["configs/validate.py", "Orchestrator.run_turn and all stages", "gate predicates in t1/t2/orchestrator/metrics", "JSONL logs, snapshots"]
STUBS = ["clock: SimClock", "scratch log/snapshot directories on tmpfs (listing + bytes observed)"]
ASSUMPTIONS = [
    "scheduler.budgets.{ops_reflection,time_ms_reflection} are documented as part of the reflection surface and generated with the "
    "reflection subtree, not the scheduler's",
    "t2.quality.shadow=true is only generated while the perf master switch is off (shadow tracing is its own documented mode when perf is on)",
    "thread-pool creation is a mechanism, not an effect: it is not asserted",
]
SHRINK_FIELDS = ["ops", "gates"]

GATED_ARTEFACTS = ("gel.jsonl", "t3_reflection.jsonl", "scheduler.jsonl")


def _junk(gate: str, r, perf_on: bool) -> Dict[str, Any]:
    c = r.choice
    if gate == "perf":
        out: Dict[str, Any] = {"enabled": False}
        if r.chance(0.6):
            out["t1"] = {k: v for k, v in (("caps", c([{"frontier": 1}, {"visited": 1}, {"frontier": 2, "visited": 3}])),
                                            ("dedupe_window", c([1, 4])), ("cache", c([{"max_entries": 1}, {"max_bytes": 64}, {"max_entries": 4, "max_bytes": 4096}])),
                                            ("queue_cap", c([1, 100]))) if r.chance(0.5)}
        if r.chance(0.6):
            out["t2"] = {k: v for k, v in (("cache", c([{"max_entries": 1}, {"max_bytes": 256}])), ("embed_store_dtype", c(["fp32", "fp16"])),
                                            ("precompute_norms", c([True, False])),
                                            ("reader", {"partitions": c([{"enabled": True, "layout": "none", "path": "./t2store"}, {"enabled": True},
                                                                          {"enabled": True, "layout": "owner_quarter", "path": "./.data/t2parts"}])})) if r.chance(0.5)}
        if r.chance(0.5):
            out["snapshots"] = {k: v for k, v in (("compression", c(["none", "zstd"])), ("level", c([1, 19])), ("delta_mode", c([True, False])),
                                                  ("every_n_turns", c([1, 2]))) if r.chance(0.6)}
        if r.chance(0.6):
            out["metrics"] = {"report_memory": True}
        if r.chance(0.7):
            out["parallel"] = {"enabled": c([True, True, False]), "max_workers": c([0, 1, 2, 4]), "t1": c([True, False]), "t2": c([True, False]),
                               "agents": c([True, False])}
        return out
    if gate == "parallel":
        return {"enabled": False, "max_workers": c([0, 1, 2, 8]), "t1": c([True, False]), "t2": c([True, False]), "agents": c([True, False])}
    if gate == "graph":
        out = {"enabled": False}
        for k, vals in (("coactivation_threshold", [0.0, 0.5]), ("observe_top_k", [1, 64]), ("pair_cap_per_obs", [0, 5]),
                        ("update", [{"mode": "proportional", "alpha": 0.9}, {"mode": "additive", "alpha": 0.5, "clamp_min": -0.2, "clamp_max": 0.2}]),
                        ("decay", [{"half_life_turns": 1, "floor": 0.1}, {"half_life_turns": 3}, {"half_life_turns": 2, "floor": 0.9}]),
                        ("merge", [{"enabled": True, "min_size": 2, "min_avg_w": 0.0}]), ("split", [{"enabled": True, "weak_edge_thresh": 0.0}]),
                        ("promotion", [{"enabled": True, "label_mode": "concat_k", "attach_weight": 1.0}])):
            if r.chance(0.6):
                out[k] = c(vals)
        return out
    if gate == "quality":
        out = {"enabled": False}
        for k, vals in (("shadow", [False] if perf_on else [True, False]), ("redact", [True, False]),
                        ("normalizer", [{"enabled": True, "stemmer": "porter-lite", "min_token_len": 2}]),
                        ("aliasing", [{"enabled": True, "map_path": "aliases.yaml", "max_expansions_per_token": 2}]),
                        ("lexical", [{"enabled": True, "bm25_k1": 1.5, "bm25_b": 0.5}, {"enabled": True, "stopwords": "en-basic"}]),
                        ("fusion", [{"enabled": True, "alpha_semantic": 0.0}, {"enabled": True, "alpha_semantic": 0.5, "score_norm": "minmax"}]),
                        ("mmr", [{"enabled": True, "lambda": 0.0, "k": 1}, {"enabled": True, "lambda": 0.5}, {"enabled": True, "lambda": 1.0, "k": 2}]),
                        ("cache", [{"salt": "abc"}])):
            if r.chance(0.6):
                out[k] = c(vals)
        return out
    if gate == "hybrid":
        out = {"enabled": False}
        for k, vals in (("use_graph", [True, False]), ("anchor_top_m", [1, 8]), ("walk_hops", [1, 2]), ("edge_threshold", [0.0, 0.5]),
                        ("lambda_graph", [0.0, 1.0]), ("damping", [0.0, 1.0]), ("degree_norm", ["none", "invdeg"]), ("max_bonus", [0.0, 5.0]),
                        ("k_max", [1, 128])):
            if r.chance(0.6):
                out[k] = c(vals)
        return out
    if gate == "reflection":
        out = {}
        for k, vals in (("backend", ["rulebased", "llm"]), ("summary_tokens", [0, 1, 128]), ("embed", [True, False]), ("log", [True, False]),
                        ("topk_snippets", [0, 1, 3])):
            if r.chance(0.6):
                out[k] = c(vals)
        return out
    if gate == "scheduler":
        out = {"enabled": False, "policy": c(["round_robin", "fair_queue"]), "quantum_ms": c([1, 20])}
        b = {}
        for k, vals in (("t1_pops", [0, 1, None]), ("t1_iters", [0, 1]), ("t2_k", [0, 1]), ("t3_ops", [0, 1]), ("wall_ms", [20, 1000])):
            if r.chance(0.6):
                b[k] = c(vals)
        if b:
            out["budgets"] = b
        if r.chance(0.5):
            out["fairness"] = {"max_consecutive_turns": c([1, 3]), "aging_ms": c([0, 50])}
        return out
    raise ValueError(gate)


GATES = ["perf", "parallel", "graph", "quality", "hybrid", "reflection", "scheduler"]


def _install(raw: Dict[str, Any], gate: str, junk: Dict[str, Any]) -> None:
    if gate == "perf":
        raw["perf"] = junk
    elif gate == "parallel":
        raw.setdefault("perf", {})["parallel"] = junk
    elif gate == "graph":
        raw["graph"] = junk
    elif gate == "quality":
        raw.setdefault("t2", {})["quality"] = junk
    elif gate == "hybrid":
        raw.setdefault("t2", {})["hybrid"] = junk
    elif gate == "reflection":
        raw.setdefault("t3", {})["allow_reflection"] = False
        raw["t3"]["reflection"] = junk.get("reflection", junk) if "reflection" in junk else {k: v for k, v in junk.items() if not k.startswith("_")}
        if "_budgets" in junk:
            raw.setdefault("scheduler", {}).setdefault("budgets", {}).update(junk["_budgets"])
    elif gate == "scheduler":
        prev = raw.get("scheduler") or {}
        sched = copy.deepcopy(junk)
        # keep the reflection-surface budgets of the base arm
        for k in ("ops_reflection", "time_ms_reflection"):
            if k in (prev.get("budgets") or {}):
                sched.setdefault("budgets", {})[k] = prev["budgets"][k]
        raw["scheduler"] = sched


def generate(seed: int, tier: str) -> Dict[str, Any]:
    rng = Rng(seed)
    r = rng.stream("gen")
    world = E.gen_world(rng.stream("world"), with_gel=True, bad_ts=False)
    base = E.valid_cfg(rng.stream("config"), ["t1", "t2", "t3", "t4", "t1cache", "t2cache", "t4cache", "kill"], p=0.3)
    base.setdefault("t2", {})["sim_threshold"] = r.choice([-1.0, -0.2, 0.0])
    gates = r.sample(GATES, r.choice([1, 1, 2, 3]))
    perf_on = False
    if "parallel" in gates:
        gates = [g for g in gates if g != "perf"]
        if r.chance(0.6):
            perf_on = True
            base["perf"] = {"enabled": True, "metrics": {"report_memory": r.chance(0.5)}}
            if r.chance(0.5):
                base["perf"]["t1"] = {"cache": {"max_entries": 4, "max_bytes": 10000}}
    # the OTHER optional features may be switched on in the base (both arms): a closed gate must be inert also next to an
    # open one (a value in the closed subtree read by the open feature is exactly such an interaction)
    on = [g for g in ("graph", "hybrid", "quality", "scheduler", "reflection") if g not in gates and r.chance(0.3)]
    if "graph" in on or "hybrid" in on:
        if "graph" not in gates:
            base["graph"] = {"enabled": True, "coactivation_threshold": 0.0, "observe_top_k": r.choice([3, 64]),
                             "update": {"mode": "additive", "alpha": r.choice([0.3, 0.7])}, "merge": {"enabled": r.chance(0.5), "min_size": 2, "min_avg_w": 0.0}, "split": {"weak_edge_thresh": 0.0}}
            base["t2"]["sim_threshold"] = -1.0
    if "hybrid" in on:
        base["t2"]["hybrid"] = {"enabled": True, "edge_threshold": 0.0, "lambda_graph": r.choice([0.25, 0.9])}
    if "quality" in on:
        base["t2"]["quality"] = r.choice([{"enabled": True, "lexical": {"enabled": True}, "fusion": {"enabled": True, "alpha_semantic": 0.5}},
                                          {"enabled": True, "mmr": {"enabled": True, "lambda": 0.3, "k": 2}}])
    if "scheduler" in on:
        base["scheduler"] = {"enabled": True, "quantum_ms": 10**9, "budgets": {"wall_ms": 2 * 10**9, "t2_k": r.choice([1, 2, 64]), "t3_ops": r.choice([1, 3])}}
    if "reflection" in on:
        base.setdefault("t3", {})["allow_reflection"] = True
    jr = rng.stream("junk")
    junk: Dict[str, Any] = {}
    for g in gates:
        j = _junk(g, jr, perf_on)
        if g == "reflection" and jr.chance(0.5):
            j["_budgets"] = {"ops_reflection": jr.choice([0, 1, 5]), "time_ms_reflection": jr.choice([1, 6000])}
        junk[g] = j
    # validate B+; drop junk the validator rejects
    ok: List[Dict[str, Any]] = []
    for g in gates:
        trial = copy.deepcopy(base)
        _install(trial, g, junk[g])
        try:
            E.validate_config(copy.deepcopy(trial))
            ok.append({"gate": g, "junk": junk[g]})
        except E.ConfigError:
            pass
    ops = E.gen_ops(rng.stream("ops"), world, r.randint(2, 6), p_mut=0.15)
    for op in ops:
        if op["op"] == "turn":
            op["reflect"] = True
    return {"world": world, "cfg": base, "gates": ok, "ops": ops, "entry": r.choice(["run_turn", "run_turn", "batch"])}


def _arm(program: Dict[str, Any], plus: bool) -> Dict[str, Any]:
    raw = copy.deepcopy(program["cfg"])
    if plus:
        for g in program.get("gates") or []:
            _install(raw, g["gate"], g["junk"])
    clock = SimClock(None, "steady")
    out: Dict[str, Any] = {"steps": [], "exc": None}
    with Scratch() as root:
        with E.EngineEnv(root, clock) as ee:
            turn_fn = None
            if program.get("entry") == "batch":
                # second entry point: the agent batch driver (with the agent gate closed it must be a plain loop)
                import clematis.engine.orchestrator.parallel as opar

                def turn_fn(ctx, state, text):
                    state.setdefault("graphs_by_agent", {a: list(g) for a, g in program["world"]["agents"].items()})
                    res = opar._run_agents_parallel_batch(ctx, state, [(ctx.agent_id, text)])
                    return res[0] if res else None
            # give the gated embedding-store reader something to find: shards at ./t2store and at the default embed_root
            try:
                import numpy as _np
                from clematis.engine.util.embed_store import write_shard
                eps = program["world"].get("episodes") or []
                ids = [e["id"] for e in eps] + ["store_only_1", "store_only_2"]
                vecs = _np.stack([E._EMB.encode([e.get("text", "")])[0] for e in eps] + [E._EMB.encode(["apple river"])[0], E._EMB.encode(["stone"])[0]])
                for d in ("t2store", os.path.join(".data", "t2")):
                    write_shard(os.path.join(root, d), ids, vecs, dtype="fp32", precompute_norms=True)
            except Exception:
                pass
            run = E.EngineRun(program["world"], raw, ee, turn_fn=turn_fn)
            out["norm_cfg"] = E.jdigest(E.validate_config(copy.deepcopy(raw)))
            for op in program["ops"]:
                if op.get("reflect"):
                    run.state["_planner_reflection_flag"] = True
                try:
                    res = run.step(op)
                except Exception as e:  # noqa: BLE001
                    import traceback
                    tb = [f for f in traceback.extract_tb(e.__traceback__) if "/clematis/" in f.filename]
                    out["exc"] = {"type": type(e).__name__, "where": (tb[-1].name if tb else "?"), "msg": str(e)[:160], "step": len(out["steps"])}
                    break
                out["steps"].append({"utter": getattr(res, "line", None) if res is not None else None,
                                     "state": E.jdigest(E.state_digest(run.state))})
            logs = E.read_dir(ee.logs)
            out["logs"] = {n: E.normalise_paths(b, root).decode("utf-8", "replace") for n, b in logs.items()}
            out["snaps"] = {n: E.normalise_paths(b, root).decode("utf-8", "replace") for n, b in E.read_dir(ee.snap).items() if n.endswith(".json")}
            extra = []
            for cur, _d, files in os.walk(root):
                for n in files:
                    rel = os.path.relpath(os.path.join(cur, n), root)
                    if not (rel.startswith("logs/") or rel.startswith("snap/") or rel.startswith("t2store/") or rel.startswith(".data/t2/")):
                        extra.append(rel)
            out["extra_files"] = sorted(extra)
            out["sim_s"] = clock.sim_seconds()
    return out


def _compare(a: Dict[str, Any], b: Dict[str, Any]) -> Optional[Dict[str, str]]:
    """a = base arm, b = B+ arm."""
    if b["exc"] is not None and a["exc"] is None:
        return {"effect": "exception:%s@%s" % (b["exc"]["type"], b["exc"]["where"]), "detail": str(b["exc"])}
    if a["exc"] is not None:
        return None
    for i, (x, y) in enumerate(zip(a["steps"], b["steps"])):
        if x["utter"] != y["utter"]:
            return {"effect": "utterance", "detail": "op %d: %r vs %r" % (i, x["utter"], y["utter"])}
        if x["state"] != y["state"]:
            return {"effect": "state", "detail": "state digest differs after op %d" % i}
    for n in GATED_ARTEFACTS:
        if n in b["logs"] and n not in a["logs"]:
            return {"effect": "artefact:" + n, "detail": "%s was created although its gate is closed" % n}
    for n in sorted(set(a["logs"]) | set(b["logs"])):
        if a["logs"].get(n) != b["logs"].get(n):
            import json as _j
            field = "?"
            la, lb = (a["logs"].get(n) or "").splitlines(), (b["logs"].get(n) or "").splitlines()
            pa = pb = ""
            for p, q in zip(la, lb):
                if p != q:
                    pa, pb = p, q
                    try:
                        jp, jq = _j.loads(p), _j.loads(q)
                        field = [k for k in sorted(set(jp) | set(jq)) if jp.get(k) != jq.get(k)][0]
                    except Exception:
                        pass
                    break
            if not pa and len(la) != len(lb):
                field = "linecount"
            return {"effect": "log:%s:%s" % (n, field), "detail": "%s: %s VS %s" % (n, pa[:240], pb[:240])}
    if a["snaps"] != b["snaps"]:
        return {"effect": "snapshot", "detail": "snapshot bodies differ"}
    if b["extra_files"] != a["extra_files"]:
        return {"effect": "artefact:file", "detail": "files outside logs/snapshots: %s vs %s" % (a["extra_files"][:3], b["extra_files"][:3])}
    return None


def _junk_keys(g: Dict[str, Any]) -> List[str]:
    out = []

    def walk(prefix, v):
        if isinstance(v, dict) and v:
            for k in sorted(v):
                walk(prefix + [k], v[k])
        else:
            out.append(".".join(prefix))
    walk([g["gate"]], g["junk"])
    return out


def execute(program: Dict[str, Any]) -> Dict[str, Any]:
    stats: Dict[str, int] = {"evaluations": 1}
    violations: List[Dict[str, Any]] = []
    a = _arm(program, False)
    b = _arm(program, True)
    for g in program.get("gates") or []:
        stats["gate_" + g["gate"]] = 1
    d = _compare(a, b)
    if d is not None:
        # necessary-feature ablation over gates, then over junk keys of the remaining gate(s)
        gates = list(program.get("gates") or [])
        for g in list(gates):
            rest = [x for x in gates if x is not g]
            if rest:
                p2 = dict(program, gates=rest)
                d2 = _compare(_arm(p2, False), _arm(p2, True))
                if d2 is not None and d2["effect"] == d["effect"]:
                    gates = rest
        small = dict(program, gates=copy.deepcopy(gates))
        for g in small["gates"]:
            junk = g["junk"]
            for k in sorted(list(junk)):
                if k == "enabled":
                    continue
                saved = junk.pop(k)
                d2 = _compare(_arm(small, False), _arm(small, True))
                if d2 is None or d2["effect"] != d["effect"]:
                    junk[k] = saved
                elif isinstance(saved, dict):
                    pass
            # one level deeper for dict-valued keys
            for k in sorted(list(junk)):
                if isinstance(junk[k], dict):
                    for kk in sorted(list(junk[k])):
                        saved = junk[k].pop(kk)
                        try:
                            E.validate_config(copy.deepcopy(_cfg_plus(small)))
                            d2 = _compare(_arm(small, False), _arm(small, True))
                        except E.ConfigError:
                            d2 = None
                        if d2 is None or d2["effect"] != d["effect"]:
                            junk[k][kk] = saved
        keys = sorted(k for g in small["gates"] for k in _junk_keys(g) if not k.endswith(".enabled"))
        sig = "%s|%s|keys=%s" % ("+".join(sorted(g["gate"] for g in small["gates"])), d["effect"], ",".join(keys)[:160])
        violations.append({"cls": "gate-not-inert", "sig": sig, "program": small,
                           "detail": "%s ; gated-off subtree(s): %s" % (d["detail"], [(g["gate"], g["junk"]) for g in small["gates"]])})
    nontrivial = bool(program.get("gates")) and a.get("norm_cfg") != b.get("norm_cfg") and any(
        ('"k_returned": 0' not in (a["logs"].get("t2.jsonl") or ""), '"pops": 0' not in (a["logs"].get("t1.jsonl") or "")))
    return {"violations": violations, "stats": stats, "faults": {}, "nontrivial": nontrivial, "key": E.jdigest(program),
            "sim_s": float(a.get("sim_s", 0.0)) + float(b.get("sim_s", 0.0)), "log": E.jdigest([a.get("logs"), b.get("logs")])}


def _cfg_plus(program: Dict[str, Any]) -> Dict[str, Any]:
    raw = copy.deepcopy(program["cfg"])
    for g in program.get("gates") or []:
        _install(raw, g["gate"], g["junk"])
    return raw
