"""C04 - apply commits exactly the approved deltas, once, with version discipline.

Histories of turns whose plans carry generated deltas (through the orchestrator's own t3_deliberate seam around the
real planner; the real meta-filter decides), over a recording store double with a per-turn fault plan (batch raises,
chosen single deltas raise, odd result shapes), with kill switch / cadence / cache-bust mode toggled at arbitrary turns.
A small reference model says what the store must have been handed.
"""
from __future__ import annotations

import json
import os
from typing import Any, Dict, List, Optional

from vsim import use_repo

use_repo()

from vsim import engine as E  # noqa: E402
from vsim.clock import SimClock  # noqa: E402
from vsim.rng import Rng  # noqa: E402
from vsim.scratch import Scratch  # noqa: E402

import clematis.engine.orchestrator as orch  # noqa: E402
import clematis.engine.orchestrator.core as core  # noqa: E402
import clematis.engine.apply as eapply  # noqa: E402
from clematis.engine.stages.t3 import deliberate as real_deliberate  # noqa: E402
from clematis.engine.types import ProposedDelta  # noqa: E402
from clematis.graph.store import InMemoryGraphStore  # noqa: E402

PROPERTY = "C04"
LEVEL = "exploration"
RUNS = {"quick": 3000, "thorough": 40000}
RULE = ("one run = small world + t4/cache config + history of 3-12 ops over {turn with generated plan deltas and a store fault plan "
        "(batch ok / raises / odd result shape; subset of single deltas raise), kill-switch toggle, cadence 1-4, cache-bust mode, "
        "failing cache invalidation}; turn ids sequential, repeated, gapped or non-numeric. Reference model checked after every turn. "
        "non-trivial = at least one turn handed a non-empty approved list to the store; distinct = digest of the program")
REAL = ["Orchestrator.run_turn", "t4_filter", "apply_changes (batch / per-delta fallback, version bump, invalidation, cadence)",
        "write_snapshot", "CacheManager", "real rule-based planner (wrapped to attach the generated deltas)"]
STUBS = ["graph store: RecordingStore (InMemoryGraphStore whose apply_deltas records and is all-or-nothing under a fault plan)",
         "t3_deliberate seam: real deliberate() + generated ProposedDelta list", "clock: SimClock"]
ASSUMPTIONS = [
    "the store's batch call is all-or-nothing: when it raises nothing was applied",
    "t3.max_rag_loops is drawn from {0,1}: with 1 a RequestRetrieve plan is rebuilt by rag_once without its deltas (empty-approval path)",
    "nothing is asserted about cache_bust_mode=none (the property is silent there)",
]
SHRINK_FIELDS = ["ops"]

TARGETS = ["n:a", "n:b", "n:c", "e:a|supports|b", "n:ü", "n.dot"]
ODD_RESULTS = ["none", "empty", "edits_str", "edits_none", "noget", "with_clamps", "list"]


def generate(seed: int, tier: str) -> Dict[str, Any]:
    rng = Rng(seed)
    r = rng.stream("gen")
    world = E.gen_world(rng.stream("world"), n_agents=r.randint(1, 2), max_graphs=1, max_nodes=4, max_eps=3, odd_ids=False)
    raw = E.valid_cfg(rng.stream("config"), ["t4", "t4cache", "kill", "t3"], p=0.4)
    raw.setdefault("t3", {})["max_rag_loops"] = r.choice([0, 0, 1])
    hand_ns = None
    if r.chance(0.3):
        # several configured namespaces, one of them never filled by anything (or listed twice): every one of them is to be
        # invalidated on a commit
        # (the validator only knows the namespace the orchestrator fills itself; a caller with caches of its own sets the list by hand)
        hand_ns = r.choice([["t1:propagate", "t2:semantic"], ["never:used", "t2:semantic"], ["t2:semantic", "t2:semantic"], ["t2:semantic", "never:used"]])
        raw.setdefault("t4", {}).setdefault("cache", {})["enabled"] = True
        raw["t4"]["cache"].pop("max_entries", None)
        raw["t4"]["cache_bust_mode"] = "on-apply"
    ro = rng.stream("ops")
    agents = sorted(world["agents"])
    ops: List[Dict[str, Any]] = []
    turn = 0
    # a fifth of the histories run with a churn cap that actually trims (the meta-filter ranks by magnitude there) and
    # generous other caps, over plans that touch most targets with distinct magnitudes
    trimming = r.chance(0.2)
    if trimming:
        raw.setdefault("t4", {}).update({"churn_cap_edges": r.choice([2, 3, 4]), "delta_norm_cap_l2": 100.0, "novelty_cap_per_node": 1.0})
    for _ in range(r.randint(3, 12)):
        x = ro.random()
        if x < 0.12:
            ops.append({"op": "set_cfg", "path": ["t4", "enabled"], "value": ro.chance(0.5)})
        elif x < 0.2:
            ops.append({"op": "set_cfg", "path": ["t4", "snapshot_every_n_turns"], "value": ro.randint(1, 4)})
        elif x < 0.28:
            ops.append({"op": "set_cfg", "path": ["t4", "cache_bust_mode"], "value": ro.choice(["none", "on-apply"])})
        elif x < 0.33:
            ops.append({"op": "arm_invalidate_fault", "on": ro.chance(0.7)})
        else:
            nd = ro.choice([0, 1, 1, 2, 3, 5])
            deltas = [{"kind": "edge" if t.startswith("e:") else "node", "id": t, "attr": "weight",
                       "delta": ro.choice([0.05, -0.1, 0.2, 0.31, 1.0, -2.0, 0.0]), "op_idx": ro.choice([None, 0, 1])}
                      for t in [ro.choice(TARGETS) for _ in range(nd)]]
            if trimming and ro.chance(0.8):
                mags = ro.sample([0.05, -0.1, 0.15, 0.2, -0.25, 0.3, 0.35], len(TARGETS))
                deltas = [{"kind": "edge" if t.startswith("e:") else "node", "id": t, "attr": "weight", "delta": m, "op_idx": None}
                          for t, m in zip(ro.sample(TARGETS, len(TARGETS)), mags)]
            fault = {"export": ro.chance(0.12), "consume": ro.chance(0.15), "garbage_w": ro.choice([None] * 9 + [[None], ["abc"], [[1]]]),
                     "export_garbage": ro.choice([None] * 10 + ["tuple_keys", "set_value"]),
                     "batch": ro.weighted([("ok", 5), ("raise", 3), ("odd:" + ro.choice(ODD_RESULTS), 2)]),
                     "singles": sorted(set(ro.randint(0, 5) for _ in range(ro.choice([0, 0, 1, 2])))),
                     "exc": ro.choice(["RuntimeError", "ValueError", "KeyError", "OSError"])}
            tid: Any = turn
            y = ro.random()
            if y < 0.1:
                tid = str(turn)
            elif y < 0.15:
                tid = "turn-x"
            ops.append({"op": "turn", "agent": ro.choice(agents), "text": E.gen_text(ro), "turn_id": tid,
                        "now_ms": E.T0_MS + turn * 1000, "deltas": deltas, "store_fault": fault})
            turn += ro.choice([1, 1, 1, 0, 2])
    # how the caller hands the configuration over: ctx.cfg + ctx.config, or ctx.cfg only (TurnCtx, run_smoke_turn)
    style = r.choice(["both", "both", "cfg_only"])
    # ... and what the configuration object IS: the attribute-dict of run_smoke_turn, rebuilt on every change, or ONE typed Config
    # instance (clematis.engine.types.Config, what a loader hands every turn) that the caller edits in place between turns
    form = "dataclass_in_place" if (style == "both" and hand_ns is None and r.chance(0.25)) else "attrdict"
    return {"world": world, "cfg": raw, "ops": ops, "ctx_style": style, "hand_namespaces": hand_ns, "cfg_form": form}


_EXC = {"RuntimeError": RuntimeError, "ValueError": ValueError, "KeyError": KeyError, "OSError": OSError}


class _NoGet:
    pass


def _plain(o: Any) -> Any:
    if isinstance(o, dict):
        return {k: _plain(v) for k, v in o.items()}
    if isinstance(o, list):
        return [_plain(v) for v in o]
    return o


class _InPlaceRun(E.EngineRun):
    """The configuration is one typed Config instance for the whole history; set_cfg edits it in place."""

    def _mk_cfg(self):  # type: ignore[override]
        import dataclasses
        from clematis.engine.types import Config
        plain = _plain(super()._mk_cfg())
        names = {f.name for f in dataclasses.fields(Config)}
        inst = getattr(self, "_inst", None)
        if inst is None:
            inst = Config(**{k: v for k, v in plain.items() if k in names})
            for k, v in plain.items():
                if k not in names:
                    setattr(inst, k, v)
            self._inst = inst
            return inst
        for k, v in plain.items():
            cur = getattr(inst, k, None)
            if isinstance(cur, dict) and isinstance(v, dict):
                cur.clear()
                cur.update(v)
            else:
                setattr(inst, k, v)
        return inst


class RecordingStore(InMemoryGraphStore):
    def __init__(self) -> None:
        super().__init__()
        self.calls: List[Dict[str, Any]] = []
        self.fault: Dict[str, Any] = {"batch": "ok", "singles": [], "exc": "RuntimeError"}
        self.approved_keys: List[Any] = []
        self.applied: List[Any] = []

    @staticmethod
    def key(d: Any) -> Any:
        return (getattr(d, "target_kind", None), getattr(d, "target_id", None), getattr(d, "attr", None),
                round(float(getattr(d, "delta", 0.0)), 12))

    def export_state(self) -> Any:
        # what the snapshot writer asks the store for on a cadence turn: may fail like any other store call
        if self.fault.get("export"):
            self.export_raised = getattr(self, "export_raised", 0) + 1
            raise _EXC[self.fault.get("exc", "RuntimeError")]("simulated export failure")
        if self.fault.get("export_garbage"):
            # ... or hand back something no snapshot can hold (a set, a tuple-keyed mapping)
            self.export_garbage_seen = getattr(self, "export_garbage_seen", 0) + 1
            return {"weights": {("node", "n:a", "weight"): 0.5}, "tags": {"x", "y"}} if self.fault["export_garbage"] == "tuple_keys" else {"tags": {"x", "y"}}
        if self.fault.get("garbage_w"):
            # ... and a weight map in a bad state: an entry that holds no number, an entry under a malformed key
            self.w = {("node", "n:a", "weight"): 0.5, ("node", "n:b", "weight"): self.fault["garbage_w"][0], "plain": 1.0}
            self.garbage_w_seen = getattr(self, "garbage_w_seen", 0) + 1
        elif hasattr(self, "w"):
            del self.w
        raise NotImplementedError   # no structured export: the writer falls back to the weight map

    def apply_deltas(self, gid: str, deltas: List[Any]) -> Any:  # type: ignore[override]
        ds = list(deltas)
        if self.fault.get("consume") and not self.calls and isinstance(deltas, list):
            # a store that works its way through the list it was handed by popping - and fails all the same
            del deltas[:]
        first = not self.calls
        rec = {"gid": gid, "n": len(ds), "keys": [self.key(d) for d in ds], "batch": first, "raised": False}
        self.calls.append(rec)
        exc = _EXC[self.fault.get("exc", "RuntimeError")]
        if first:
            mode = self.fault.get("batch", "ok")
            if mode == "raise":
                rec["raised"] = True
                raise exc("simulated batch failure")
            self.applied.extend(rec["keys"])
            if mode.startswith("odd:"):
                shape = mode[4:]
                return {"none": None, "empty": {}, "edits_str": {"edits": "3"}, "edits_none": {"edits": None},
                        "noget": _NoGet(), "with_clamps": {"edits": len(ds), "clamped": 1}, "list": [len(ds)]}[shape]
            return {"edits": len(ds), "clamps": 0}
        # single-delta fall-back call
        if len(ds) == 1 and ds and self.approved_keys:
            try:
                idx = self.approved_keys.index(rec["keys"][0])
            except ValueError:
                idx = -1
            if idx in self.fault.get("singles", []):
                rec["raised"] = True
                raise exc("simulated single failure")
        self.applied.extend(rec["keys"])
        return {"edits": len(ds)}


def execute(program: Dict[str, Any]) -> Dict[str, Any]:
    stats: Dict[str, int] = {}
    faults: Dict[str, int] = {}
    violations: List[Dict[str, Any]] = []
    clock = SimClock(None, "steady")
    nontrivial = False

    def bad(cls: str, sig: str, detail: str) -> None:
        violations.append({"cls": cls, "sig": sig, "detail": detail})

    with Scratch() as root:
        with E.EngineEnv(root, clock) as ee:
            store = RecordingStore()
            in_place = program.get("cfg_form") == "dataclass_in_place"
            run = (_InPlaceRun if in_place else E.EngineRun)(program["world"], program["cfg"], ee, store=store)
            if in_place:
                stats["typed_config_edited_in_place"] = 1
            if program.get("hand_namespaces"):
                run.hand_set = [(["t4", "cache", "namespaces"], list(program["hand_namespaces"]))]
                run.cfg = run._mk_cfg()
                stats["hand_set_namespaces"] = 1
            run.ctx_style = program.get("ctx_style", "both")
            # clauses that depend on the t4 section being READ carry the context shape in their signature (known finding:
            # Apply reads ctx.config only); every other clause is shape-independent
            cfg_only_tag = ":ctx-cfg-only" if run.ctx_style == "cfg_only" else ""
            cur: Dict[str, Any] = {"deltas": [], "approved": None, "snap_calls": 0}

            def delib(ctx, state, bundle):
                plan = real_deliberate(bundle)
                plan.deltas = [ProposedDelta(target_kind=d["kind"], target_id=d["id"], attr=d["attr"], delta=float(d["delta"]),
                                             op_idx=d.get("op_idx"), idx=i) for i, d in enumerate(cur["deltas"])]
                return plan

            real_t4 = core.t4_filter

            def t4_spy(ctx, state, t1, t2, plan, utter):
                res = real_t4(ctx, state, t1, t2, plan, utter)
                cur["approved"] = [RecordingStore.key(d) for d in res.approved_deltas]
                store.approved_keys = list(cur["approved"])
                return res

            real_ws = eapply.write_snapshot

            def ws_spy(*a, **k):
                cur["snap_calls"] += 1
                return real_ws(*a, **k)

            orch.t3_deliberate = delib
            core.t3_deliberate = delib
            core.t4_filter = t4_spy
            eapply.write_snapshot = ws_spy
            inval_fault = {"on": False}
            try:
                for oi, op in enumerate(program["ops"]):
                    if op["op"] == "arm_invalidate_fault":
                        inval_fault["on"] = bool(op["on"])
                        continue
                    if op["op"] != "turn":
                        run.step(op)
                        continue
                    st = run.state
                    t4cfg = (run.cfg.get("t4") if hasattr(run.cfg, "get") else getattr(run.cfg, "t4", None)) or {}
                    enabled = bool(t4cfg.get("enabled", True))
                    every = max(1, int(t4cfg.get("snapshot_every_n_turns", 1)))
                    bust = str(t4cfg.get("cache_bust_mode") or "none")
                    namespaces = list((t4cfg.get("cache") or {}).get("namespaces", ["t2:semantic"]))
                    cm = st.get("_cache_mgr")
                    if cm is not None and inval_fault["on"]:
                        def boom(ns, _cm=cm):
                            faults["invalidate_raised"] = faults.get("invalidate_raised", 0) + 1
                            raise RuntimeError("simulated invalidation failure")
                        cm.invalidate_namespace = boom  # instance attribute shadows the method
                    elif cm is not None and "invalidate_namespace" in vars(cm):
                        del cm.invalidate_namespace
                    store.calls = []
                    store.fault = dict(op.get("store_fault") or {"batch": "ok", "singles": []})
                    store.approved_keys = []
                    cur.update({"deltas": list(op.get("deltas") or []), "approved": None, "snap_calls": 0})
                    ver_before = st.get("version_etag")
                    logs_before = {n: len(b) for n, b in E.read_dir(ee.logs).items()}
                    stats["evaluations"] = stats.get("evaluations", 0) + 1
                    try:
                        res = run.step(op)
                    except Exception as e:  # noqa: BLE001
                        import traceback
                        tb = traceback.extract_tb(e.__traceback__)[-1]
                        bad("turn-aborted", "turn-aborted:%s@%s" % (type(e).__name__, tb.name),
                            "run_turn raised %s: %s (store fault %s)" % (type(e).__name__, str(e)[:160], store.fault))
                        break
                    ver_after = st.get("version_etag")
                    logs_after = {n: len(b) for n, b in E.read_dir(ee.logs).items()}
                    calls = store.calls
                    fault = store.fault
                    ctxd = "op#%d turn_id=%r kill_switch_on=%s fault=%s approved=%s calls=%s" % (
                        oi, op.get("turn_id"), enabled, fault, cur["approved"], [(c["n"], c["raised"]) for c in calls])
                    if not enabled:
                        stats["turns_killswitch_off"] = stats.get("turns_killswitch_off", 0) + 1
                        if calls:
                            bad("killswitch", "killswitch-off:store-called", ctxd)
                        if ver_after != ver_before:
                            bad("killswitch", "killswitch-off:version-moved", "%r -> %r; %s" % (ver_before, ver_after, ctxd))
                        if cur["snap_calls"]:
                            bad("killswitch", "killswitch-off:snapshot", ctxd)
                        for n in ("t4.jsonl", "apply.jsonl"):
                            if logs_after.get(n, 0) != logs_before.get(n, 0):
                                bad("killswitch", "killswitch-off:record:" + n, ctxd)
                        continue
                    approved = cur["approved"]
                    if approved is None:
                        bad("model", "t4-not-run", ctxd)
                        continue
                    if approved:
                        nontrivial = True
                        stats["turns_with_approved"] = stats.get("turns_with_approved", 0) + 1
                    if fault.get("batch") == "raise":
                        faults["batch_raised"] = faults.get("batch_raised", 0) + 1
                    elif str(fault.get("batch", "")).startswith("odd:"):
                        faults["batch_odd_result"] = faults.get("batch_odd_result", 0) + 1
                    # --- reference model of the hand-off ---
                    if not calls:
                        bad("handoff", "no-batch-call", ctxd)
                    else:
                        b = calls[0]
                        ck = ["%s:%s:%s" % (k[0], k[1], k[2]) for k in b["keys"]]
                        if ck != sorted(ck):
                            bad("handoff", "batch-not-in-canonical-order", "batch got %s; %s" % (b["keys"], ctxd))
                        n_prop = len({(d["kind"], d["id"], d["attr"]) for d in (op.get("deltas") or [])})
                        if len(ck) >= 2 and n_prop > len(ck):
                            stats["handoffs_of_a_trimmed_list"] = stats.get("handoffs_of_a_trimmed_list", 0) + 1
                        if b["keys"] != approved:
                            bad("handoff", "batch-args-differ", "batch got %s; %s" % (b["keys"], ctxd))
                        rest = calls[1:]
                        rk = ["%s:%s:%s" % (k[0], k[1], k[2]) for cc in rest for k in cc["keys"]]
                        if rk != sorted(rk):
                            bad("handoff", "fallback-not-in-canonical-order", "one-by-one calls got %s; %s" % (rk, ctxd))
                        if not b["raised"]:
                            if rest:
                                bad("handoff", "fallback-after-successful-batch:" + str(fault.get("batch")),
                                    "batch call returned normally yet %d more call(s) followed; %s" % (len(rest), ctxd))
                        else:
                            want = [[k] for k in approved]
                            got = [c["keys"] for c in rest]
                            if got != want:
                                bad("handoff", "fallback-sequence-differs", "single calls %s, expected one per approved delta in order; %s" % (got, ctxd))
                            faults["single_raised"] = faults.get("single_raised", 0) + sum(1 for c in rest if c["raised"])
                        applied = list(store.applied)
                    store.applied = []
                    # --- version discipline ---
                    try:
                        want_ver = str(int(ver_before) + 1)
                    except Exception:
                        want_ver = "1"
                    if str(ver_after) != want_ver:
                        bad("version", "version-not-plus-one", "%r -> %r; %s" % (ver_before, ver_after, ctxd))
                    # --- invalidation ---
                    cm = st.get("_cache_mgr")
                    if bust == "on-apply" and cm is not None and not inval_fault["on"]:
                        for ns in namespaces:
                            nsobj = cm._ns.get(ns)
                            if nsobj is not None and nsobj.size() != 0:
                                bad("invalidation", "namespace-not-empty-after-apply" + cfg_only_tag, "namespace %s holds %d entries; %s" % (ns, nsobj.size(), ctxd))
                        stats["invalidation_checked"] = stats.get("invalidation_checked", 0) + 1
                    # --- cadence ---
                    try:
                        tnum = int(op.get("turn_id", 0))
                    except Exception:
                        tnum = 0
                    want_snap = (tnum % every) == 0
                    if bool(cur["snap_calls"]) != want_snap or cur["snap_calls"] > 1:
                        bad("cadence", "snapshot-cadence" + cfg_only_tag, "turn %r every %d: %d snapshot write(s); %s" % (op.get("turn_id"), every, cur["snap_calls"], ctxd))
                    if want_snap:
                        stats["snapshots_expected"] = stats.get("snapshots_expected", 0) + 1
                        p = os.path.join(ee.snap, "state_%s.json" % op["agent"])
                        try:
                            body = json.load(open(p, "r", encoding="utf-8"))
                            if str(body.get("version_etag")) != str(ver_after):
                                bad("cadence", "snapshot-version-stale", "snapshot has version %r, state %r; %s" % (body.get("version_etag"), ver_after, ctxd))
                        except Exception as e:  # noqa: BLE001
                            bad("cadence", "snapshot-unreadable", "%s: %s; %s" % (type(e).__name__, e, ctxd))
                    for n in ("t4.jsonl", "apply.jsonl"):
                        if logs_after.get(n, 0) == logs_before.get(n, 0):
                            bad("records", "missing-record:" + n, ctxd)
                    if res is None or not hasattr(res, "line"):
                        bad("turn-aborted", "no-turn-result", ctxd)
            finally:
                core.t4_filter = real_t4
                eapply.write_snapshot = real_ws
    for k in ("turn",):
        stats["ops_turn"] = sum(1 for o in program["ops"] if o["op"] == "turn")
    return {"violations": violations, "stats": stats, "faults": faults, "nontrivial": nontrivial,
            "key": E.jdigest(program), "sim_s": clock.sim_seconds(), "log": E.jdigest([violations, stats])}
