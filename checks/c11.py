"""C11 - retrieval honours scope, thresholds, caps and documented ranking.

Multi-agent histories over ONE shared memory index with the stage and turn-level caches on (sizes 1/2/512), interleaved with
memory additions, graph relabels and config changes; a monitor sits on every T2Result the engine produces (also the RAG
refinement call) and on apply_quality (list before / after the rerank layers).  The schedule-dependent clause is scope
isolation between agents through shared caches; the ranking law and tier rules are evaluated on what the runs generate.
"""
from __future__ import annotations

import contextlib
import copy
import math
import os
from typing import Any, Dict, List, Optional

import numpy as np

from vsim import use_repo

use_repo()

from vsim import engine as E  # noqa: E402
from vsim.clock import SimClock  # noqa: E402
from vsim.rng import Rng  # noqa: E402
from vsim.scratch import Scratch  # noqa: E402
from vsim.sched import ParallelSeams  # noqa: E402

import clematis.engine.orchestrator as orch  # noqa: E402
import clematis.engine.orchestrator.core as core  # noqa: E402
import clematis.engine.stages.t2.core as t2core  # noqa: E402
from clematis.adapters.embeddings import BGEAdapter  # noqa: E402

PROPERTY = "C11"
LEVEL = "exploration"
RUNS = {"quick": 2500, "thorough": 40000}
RULE = ("one run = seeded world (2-3 agents sharing one memory index with owners agent/world/other, zero and duplicate vectors, clusters, "
        "importance, timestamps around the logical now) + swarm retrieval config (k, threshold, tiers, ranking weights, owner scope, residual "
        "cap, caches on; optionally hybrid rerank with GEL edges, lexical fusion, MMR) + history of 3-10 ops (turns by alternating agents "
        "re-asking the same texts, memory additions, relabels, config changes); every T2Result is monitored. non-trivial = at least one "
        "call returned hits; distinct = digest of the program")
REAL = ["t2_semantic (tier walk, dedupe, k clamp, combined rescoring, residual mapping)", "InMemoryIndex.search_tiered", "apply_quality / rerank_with_gel / fuse / MMR",
        "stage cache + turn-level cache (shared between the agents)", "Orchestrator.run_turn incl. RAG refinement"]
STUBS = ["clock: SimClock", "query encoder wrapped to capture the query vector (same deterministic adapter)"]
ASSUMPTIONS = ["cluster-tier membership is not judged when cluster scores tie within 1e-6",
               "cosine is recomputed in float32 with the index's own formula; threshold comparisons allow 1e-6",
               "ranking law and tier rules are sampled over generated memories (input-quantified clauses)"]
SHRINK_FIELDS = ["ops"]


def generate(seed: int, tier: str) -> Dict[str, Any]:
    rng = Rng(seed)
    r = rng.stream("gen")
    world = E.gen_world(rng.stream("world"), n_agents=r.randint(2, 3), bad_ts=False, with_gel=True, max_eps=12)
    # make GEL edges connect real episode ids so that hybrid rerank has something to do
    ids = [e["id"] for e in world["episodes"]]
    if len(ids) >= 2:
        ge = {}
        gr = rng.stream("gel")
        for _ in range(gr.randint(1, 6)):
            a, b = gr.sample(ids, 2)
            s, d = (a, b) if a <= b else (b, a)
            ge["%s→%s" % (s, d)] = {"id": "%s→%s" % (s, d), "src": s, "dst": d, "weight": round(gr.uniform(0.1, 1.0), 3), "rel": "coact", "updated_at": None, "attrs": {}}
        world["gel"] = {"nodes": {}, "edges": ge, "meta": {"schema": "v1.1", "merges": [], "splits": [], "promotions": [], "concept_nodes_count": 0, "edges_count": len(ge)}}
    dup_owner = r.chance(0.15) and len(world["episodes"]) >= 2
    if dup_owner:
        # another owner stores an episode under an id that is already taken (ids are caller-supplied): fresher and more
        # important than the original - it must not lend its metadata to the original's ranking
        others = sorted(set(world["agents"]) | {"world"})
        for src in r.sample(world["episodes"], min(len(world["episodes"]), r.randint(1, 2))):
            cp = dict(src)
            # (a third of the time the same owner stores the id again: a newer version of its own note)
            cp["owner"] = src.get("owner") if r.chance(0.33) else r.choice([o for o in others if o != src.get("owner")] or others)
            cp["ts"] = E.iso_from_ms(E.T0_MS - 1000).replace("+00:00", "Z")
            cp["importance"] = 1.0
            cp["text"] = " ".join(r.sample(E.VOCAB, 2)) + " (v%d)" % (len(world["episodes"]) + 1)   # never the text of another copy
            cp["vec"] = "text"
            world["episodes"].append(cp)
    if r.chance(0.12):
        # clusters named by small integers, 0 among them
        names = sorted({e.get("cluster") for e in world["episodes"] if e.get("cluster") is not None}, key=str)
        ren = {n: i for i, n in enumerate(names)}
        for e in world["episodes"]:
            if e.get("cluster") is not None:
                e["cluster"] = ren[e["cluster"]]
    fams = ["t2", "t2", "t1", "t3", "t2cache", "t4cache"]
    if r.chance(0.4):
        fams.append("hybrid")
    if r.chance(0.4):
        fams.append("quality")
    if r.chance(0.3):
        fams.append("kill")
    raw = E.valid_cfg(rng.stream("config"), fams, p=0.5)
    raw.setdefault("t2", {})
    if r.chance(0.6) or dup_owner:
        raw["t2"]["owner_scope"] = r.choice(["agent", "agent", "world"])
    if r.chance(0.6):
        raw["t2"]["sim_threshold"] = r.choice([-1.0, -0.2, 0.0, 0.05])
    if r.chance(0.2):
        raw["scheduler"] = {"enabled": True, "quantum_ms": 10**9, "budgets": {"wall_ms": 2 * 10**9, "t2_k": r.choice([0, 1, 2])}}
    if r.chance(0.3):
        # the T1/T2 fan-out is the same retrieval contract: shards, per-shard hits, merged and rescored
        raw["perf"] = dict(raw.get("perf") or {}, enabled=True)
        raw["perf"]["parallel"] = {"enabled": True, "t1": r.chance(0.5), "t2": True, "agents": False, "max_workers": r.choice([2, 3, 4])}
    # (an id-keyed vector store cannot hold one id twice: worlds with a re-used id are not served by the reader)
    reader = r.chance(0.15) and not dup_owner
    if r.chance(0.3 if reader else 0.05) and world["episodes"]:
        # a stored vector with a NaN component: its similarity to anything is not a number and meets no threshold
        r.choice(world["episodes"])["vec"] = "nan"
    if reader:
        # retrieval served by the embedding-store reader (shards on disk next to the index): the same contract applies
        raw["perf"] = dict(raw.get("perf") or {}, enabled=True)
        raw["perf"].setdefault("t2", {})["reader"] = {"partitions": {"enabled": True, "layout": "none", "path": "./t2store"}}
    agents = sorted(world["agents"])
    ro = rng.stream("ops")
    texts = [E.gen_text(ro) for _ in range(r.randint(1, 2))]
    ops: List[Dict[str, Any]] = []
    now = E.T0_MS
    n = 0
    for i in range(r.randint(3, 10)):
        x = ro.random()
        if ops and x < 0.15:
            n += 1
            ops.append({"op": "add_episode", "ep": {"id": "xe%d" % n, "owner": ro.choice(agents + ["world", "stranger"]), "text": " ".join(ro.sample(E.VOCAB, ro.randint(1, 3))),
                                                    "ts": E.iso_from_ms(now - ro.choice([0, 86_400_000, 45 * 86_400_000])).replace("+00:00", "Z"),
                                                    "vec": ro.choice(["text", "zero", "text:" + texts[0]])}})
        elif ops and x < 0.25:
            gid = ro.choice(sorted(world["graphs"]))
            nd = dict(ro.choice(world["graphs"][gid]["nodes"]))
            nd["label"] = ro.choice(E.VOCAB)
            ops.append({"op": "upsert_node", "gid": gid, "node": nd})
        elif ops and x < 0.35:
            path, vals = ro.choice([(["t2", "owner_scope"], ["any", "agent", "world"]), (["t2", "k_retrieval"], [1, 2, 5]), (["t2", "sim_threshold"], [-1.0, 0.0, 0.2]),
                                    (["t2", "tiers"], [["exact_semantic"], ["cluster_semantic"], ["exact_semantic", "cluster_semantic"]]),
                                    (["t2", "residual_cap_per_turn"], [0, 1, 32])])
            ops.append({"op": "set_cfg", "path": path, "value": ro.choice(vals)})
        else:
            now += ro.choice([0, 1000, 6 * 3_600_000, 86_400_000])
            ops.append({"op": "turn", "agent": agents[len(ops) % len(agents)] if ro.chance(0.7) else ro.choice(agents), "text": ro.choice(texts), "turn_id": i, "now_ms": now})
            if ro.chance(0.04):
                ops[-1]["agent"] = None   # a caller that does not say who is asking (run_t2's default context)
    if r.chance(0.12):
        # the same question asked again under another per-slice cap (same agent, text, instant, memory): what was computed for a
        # roomier slice must not be handed to a tighter one - the used-hits clamp is part of the answer
        raw["scheduler"] = {"enabled": True, "quantum_ms": 10**9, "budgets": {"wall_ms": 2 * 10**9}}
        caps = r.sample([None, 0, 1, 2, 3], 2)
        if caps[0] is not None:
            raw["scheduler"]["budgets"]["t2_k"] = caps[0]
        t = {"op": "turn", "agent": r.choice(agents), "text": r.choice(texts), "turn_id": 90, "now_ms": now}
        ops.append(dict(t))
        if caps[1] is None:
            ops.append({"op": "set_cfg", "path": ["scheduler", "budgets", "t2_k"], "delete": True})
        else:
            ops.append({"op": "set_cfg", "path": ["scheduler", "budgets", "t2_k"], "value": caps[1]})
        ops.append(dict(t, turn_id=91))
    return {"world": world, "cfg": raw, "ops": ops}


class _Enc:
    def __init__(self, dim: int):
        self.inner = BGEAdapter(dim=dim)
        self.last = None

    def encode(self, texts):
        out = self.inner.encode(texts)
        self.last = (list(texts), out[0])
        return out


def _cos(a, b) -> float:
    a = np.asarray(a, dtype=np.float32)
    b = np.asarray(b, dtype=np.float32)
    na = float(np.linalg.norm(a)) or 1.0
    nb = float(np.linalg.norm(b)) or 1.0
    return float(np.dot(a, b) / (na * nb))


def execute(p: Dict[str, Any]) -> Dict[str, Any]:
    stats: Dict[str, int] = {}
    viol: List[Dict[str, Any]] = []

    def bad(sig, detail):
        if not any(v["sig"] == sig for v in viol):
            viol.append({"cls": "retrieval", "sig": sig, "detail": detail})

    clock = SimClock(None, "steady")
    par = bool(((p["cfg"].get("perf") or {}).get("parallel") or {}).get("enabled"))
    with Scratch() as root:
        with E.EngineEnv(root, clock) as ee, (ParallelSeams(Rng(int(E.jdigest(p)[:8], 16)).stream("sched")) if par else contextlib.nullcontext()):
            if par:
                stats["parallel_runs"] = 1
            if ((((p["cfg"].get("perf") or {}).get("t2") or {}).get("reader") or {}).get("partitions") or {}).get("enabled"):
                from clematis.engine.util.embed_store import write_shard
                eps0 = [e for e in (p["world"].get("episodes") or []) if E.episode_vec(e.get("vec", "text"), e.get("text", "")) is not None]
                if eps0:
                    write_shard(os.path.join(root, "t2store"), [e["id"] for e in eps0],
                                np.stack([np.asarray(E.episode_vec(e.get("vec", "text"), e.get("text", "")), dtype=np.float32) for e in eps0]),
                                dtype="fp32", precompute_norms=True)
                    stats["reader_runs"] = 1
            run = E.EngineRun(p["world"], p["cfg"], ee)
            real_t2 = core.t2_semantic
            real_q = t2core._apply_quality
            qlog: Dict[str, Any] = {}

            def q_spy(ctx, state, retrieved, q_text, cfg_root, cfg_t2):
                qlog["in"] = [str(x.id) for x in retrieved]
                qlog["in_scores"] = {str(x.id): float(x.score) for x in retrieved}
                out = real_q(ctx, state, retrieved, q_text, cfg_root, cfg_t2)
                qlog["out"] = [str(x.id) for x in out[0]]
                qlog["layers"] = bool(out[1] or out[3] or out[5])
                return out

            def t2_mon(ctx, state, text, t1):
                enc = _Enc(int((ctx.cfg.get("k_surface") or 32)))
                ctx.enc = enc
                qlog.clear()
                res = real_t2(ctx, state, text, t1)
                fresh = bool(qlog)  # the stage really ran (not served from its cache)
                stats["t2_calls"] = stats.get("t2_calls", 0) + 1
                stats["t2_fresh" if fresh else "t2_cached"] = stats.get("t2_fresh" if fresh else "t2_cached", 0) + 1
                cfg_t2 = ctx.cfg.get("t2") or {}
                k = int(cfg_t2.get("k_retrieval", 64))
                thr = float(cfg_t2.get("sim_threshold", 0.3))
                scope = str(cfg_t2.get("owner_scope", "any")).lower()
                idx = state["mem_index"]
                # an id may be stored under several owners: the copy that counts is the one the query can see
                owner_vis = ctx.agent_id if scope == "agent" else ("world" if scope == "world" else None)
                eps: Dict[str, Any] = {}
                for e in idx._eps:
                    eid = str(e["id"])
                    if eid not in eps or (owner_vis is not None and eps[eid].get("owner") != owner_vis and e.get("owner") == owner_vis):
                        eps[eid] = e
                # ... and a hit says itself whose copy it is
                for x in res.retrieved:
                    xo = getattr(x, "owner", None)
                    if xo is not None:
                        cands = [e for e in idx._eps if str(e["id"]) == str(x.id) and str(e.get("owner")) == str(xo)]
                        same_text = [e for e in cands if str(e.get("text", "")) == str(getattr(x, "text", ""))]
                        pool = same_text or cands
                        if len(pool) > 1 and fresh and enc.last is not None:
                            # copies that agree in id, owner and text: the index returns the best-scoring one
                            def _sc(e, _q=enc.last[1]):
                                v = e.get("vec_full")
                                if v is None:
                                    return float("-inf")
                                s = _cos(_q, v)
                                return s if s == s else float("-inf")
                            pool = sorted(pool, key=lambda e: -_sc(e))
                        if pool:
                            eps[str(x.id)] = pool[0]
                ids = [str(x.id) for x in res.retrieved]
                ctxs = "agent=%s text=%r scope=%s k=%d thr=%s tiers=%s served_from_cache=%s" % (
                    ctx.agent_id, text, scope, k, thr, cfg_t2.get("tiers"), not fresh)
                if ids:
                    stats["calls_with_hits"] = stats.get("calls_with_hits", 0) + 1
                if len(ids) > k:
                    bad("more-than-k", "%d hits; %s" % (len(ids), ctxs))
                if len(set(ids)) != len(ids):
                    bad("duplicate-hits", "%s; %s" % (ids, ctxs))
                for i in ids:
                    ow = (eps.get(i) or {}).get("owner")
                    if scope == "agent" and ow != ctx.agent_id:
                        bad("scope-leak:agent%s" % ("" if fresh else ":cached"), "hit %s is owned by %r; %s" % (i, ow, ctxs))
                    if scope == "world" and ow != "world":
                        bad("scope-leak:world%s" % ("" if fresh else ":cached"), "hit %s is owned by %r; %s" % (i, ow, ctxs))
                    if i not in eps:
                        bad("unknown-episode", "%s; %s" % (i, ctxs))
                if fresh and enc.last is not None:
                    qv = enc.last[1]
                    now_dt = t2core._parse_iso(ctx.now)
                    for x in res.retrieved:
                        e = eps.get(str(x.id))
                        if e is None or e.get("vec_full") is None:
                            if e is not None:
                                bad("hit-without-vector", "%s; %s" % (x.id, ctxs))
                            continue
                        c = _cos(qv, e["vec_full"])
                        if not (c >= thr - 1e-6):   # NaN meets no threshold
                            bad("below-threshold", "hit %s cosine %.6f < threshold %s; %s" % (x.id, c, thr, ctxs))
                        if not (abs(c - float(x.score)) <= 1e-5):
                            bad("score-not-cosine", "hit %s score %.6f, cosine %.6f; %s" % (x.id, float(x.score), c, ctxs))
                    tiers = list(cfg_t2.get("tiers", ["exact_semantic", "cluster_semantic", "archive"]))
                    if list((res.metrics or {}).get("tier_sequence") or []) == ["embed_store"]:
                        # served by the embedding-store reader: it declares its own tier; the exact / cluster tier rules are
                        # rules of those tiers and are not judged here (scope, threshold, k and ranking are)
                        tiers = ["embed_store"]
                        stats["reader_served_calls"] = stats.get("reader_served_calls", 0) + 1
                    if "archive" not in tiers and "cluster_semantic" not in tiers and "exact_semantic" in tiers:
                        days = int(cfg_t2.get("exact_recent_days", 30))
                        if days > 0:
                            for i in ids:
                                ts = (eps.get(i) or {}).get("ts")
                                if ts:
                                    age = (now_dt - t2core._parse_iso(ts, now_dt)).total_seconds() / 86400.0
                                    if age > days + 1e-9:
                                        bad("outside-recency-window", "hit %s is %.2f days old, window %d; %s" % (i, age, days, ctxs))
                    if tiers == ["cluster_semantic"]:
                        # top clusters: every hit's cluster must be among the top-m clusters (by centroid cosine over the
                        # owner-visible episodes); not judged when scores tie at the boundary
                        from clematis.memory.index import _stable_cluster_id as _derived_id

                        def _stable_cluster_id(e):
                            # the cluster an episode names (0 is a name like any other); an episode that names none is a cluster
                            # of its own
                            cid0 = (e.get("aux") or {}).get("cluster_id")
                            if cid0 is not None and cid0 != "":
                                return str(cid0)
                            return _derived_id({"id": e.get("id"), "text": e.get("text", "")})
                        owner_q = ctx.agent_id if scope == "agent" else ("world" if scope == "world" else None)
                        vis = [e for e in idx._eps if owner_q is None or e.get("owner") == owner_q]
                        by: Dict[str, List[Any]] = {}
                        for e in vis:
                            by.setdefault(_stable_cluster_id(e), []).append(e)
                        cs = []
                        for cid, items in by.items():
                            vs = [np.asarray(it["vec_full"], dtype=np.float32) for it in items if it.get("vec_full") is not None]
                            vs = [v for v in vs if bool(np.all(np.isfinite(v)))]   # a damaged vector takes no part in its cluster's centroid
                            if vs:
                                cs.append((_cos(qv, np.mean(np.stack(vs, axis=0), axis=0)), cid))
                        cs.sort(key=lambda t: (-t[0], t[1]))
                        m = int(cfg_t2.get("clusters_top_m", 3))
                        top = {cid for _s, cid in cs[:m]}
                        boundary_tie = len(cs) > m and abs(cs[m - 1][0] - cs[m][0]) <= 1e-6
                        if not boundary_tie:
                            stats["cluster_tier_checked"] = stats.get("cluster_tier_checked", 0) + 1
                            for i in ids:
                                e = eps.get(i)
                                if e is not None and _stable_cluster_id(e) not in top:
                                    bad("outside-top-clusters", "hit %s is in cluster %s, top-%d clusters are %s; %s" % (i, _stable_cluster_id(e), m, sorted(top), ctxs))
                    # ranking law on the list handed to the rerank layers; permutation law on what they return
                    if "in" in qlog:
                        rk = cfg_t2.get("ranking", {}) or {}
                        al, be, ga = float(rk.get("alpha_sim", 0.75)), float(rk.get("beta_recency", 0.2)), float(rk.get("gamma_importance", 0.05))
                        comb = []
                        for i in qlog["in"]:
                            e = eps.get(i) or {}
                            cosv = qlog["in_scores"][i]
                            ts = e.get("ts")
                            age = max(0.0, (now_dt - t2core._parse_iso(ts, now_dt)).total_seconds() / 86400.0) if ts else 365.0
                            rec = max(0.0, min(1.0, 1.0 - age / 365.0))
                            imp = max(0.0, min(1.0, float((e.get("aux") or {}).get("importance", 0.5))))
                            comb.append((-(al * (cosv + 1.0) / 2.0 + be * rec + ga * imp), i, (cosv, rec, imp)))
                        # a clear misorder, or an id misorder between two hits whose three components are EXACTLY equal (a difference in
                        # the last bits is a difference: the engine ranks by the score it computed, and so it should)
                        for (s1, i1, c1), (s2, i2, c2) in zip(comb, comb[1:]):
                            if s1 > s2 + 1e-9 or (c1 == c2 and i1 > i2):
                                bad("ranking-order", "combined score order broken between %s (%.6f) and %s (%.6f); %s" % (i1, -s1, i2, -s2, ctxs))
                                break
                        if sorted(qlog["out"]) != sorted(qlog["in"]):
                            bad("rerank-not-a-permutation", "rerank layers turned %s into %s; %s" % (qlog["in"], qlog["out"], ctxs))
                        if qlog.get("layers"):
                            stats["rerank_layers_active"] = stats.get("rerank_layers_active", 0) + 1
                        if ids != qlog["out"]:
                            bad("result-differs-from-rerank-output", "%s vs %s; %s" % (ids, qlog["out"], ctxs))
                # residual nudges
                cap = int(cfg_t2.get("residual_cap_per_turn", 32))
                slice_cap = (getattr(ctx, "slice_budgets", None) or {}).get("t2_k")
                used = res.retrieved if slice_cap is None else res.retrieved[: max(0, int(slice_cap))]
                k_used = (res.metrics or {}).get("k_used")
                if k_used is not None and slice_cap is not None and int(k_used) > max(0, int(slice_cap)):
                    bad("used-hits-exceed-slice-cap%s" % ("" if fresh else ":cached"), "k_used %s > %s; %s" % (k_used, slice_cap, ctxs))
                resid = [d.get("id") for d in res.graph_deltas_residual]
                if len(resid) > cap:
                    bad("residual-cap-exceeded", "%d residual nudges, cap %d; %s" % (len(resid), cap, ctxs))
                if fresh:
                    store = state["store"]
                    nodes = {}
                    for gid in state.get("active_graphs", []):
                        for nid, nd in store.get_graph(gid).nodes.items():
                            nodes.setdefault(nid, []).append(nd)
                    texts_low = [(getattr(x, "text", "") or "").lower() for x in used]
                    for nid in resid:
                        if nid not in nodes:
                            bad("residual-unknown-node", "%s not in the active graphs; %s" % (nid, ctxs))
                        elif not any(nd.label and any(nd.label.lower() in t for t in texts_low) for nd in nodes[nid]):
                            bad("residual-label-not-in-used-hits", "node %s labels %s; used hit texts %s; %s" % (nid, [nd.label for nd in nodes[nid]], texts_low[:3], ctxs))
                return res

            orch.t2_semantic = t2_mon
            core.t2_semantic = t2_mon
            t2core._apply_quality = q_spy
            try:
                for op in p["ops"]:
                    stats["evaluations"] = stats.get("evaluations", 0) + 1
                    run.step(op)
                    if viol:
                        break
            finally:
                core.t2_semantic = real_t2
                orch.t2_semantic = real_t2
                t2core._apply_quality = real_q
    return {"violations": viol, "stats": stats, "faults": {}, "nontrivial": bool(stats.get("calls_with_hits")), "key": E.jdigest(p), "sim_s": 0.0,
            "log": E.jdigest([viol, stats])}
