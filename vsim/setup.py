"""MANIFEST.setup_cmd: verify the tool chain, create output directories. Offline."""
import os
import sys

from . import use_repo


def main() -> int:
    repo = use_repo()
    import clematis  # noqa: F401
    import configs.validate  # noqa: F401
    import numpy  # noqa: F401
    import yaml  # noqa: F401
    here = os.path.dirname(os.path.dirname(os.path.abspath(__file__)))
    for d in ("evidence", "replays"):
        os.makedirs(os.path.join(here, d), exist_ok=True)
    assert os.path.isdir("/dev/shm"), "tmpfs scratch /dev/shm missing"
    print("vsim setup ok: python %s, repo %s, clematis %s" % (sys.version.split()[0], repo, clematis.__file__))
    return 0


if __name__ == "__main__":
    sys.exit(main())
