"""Cooperative fault points (DESIGN 2.6): a site is (module, attribute) that the caller resolves at call time."""
from __future__ import annotations

import errno
import importlib
from typing import Any, Callable, Dict, List, Optional


class SimInjected(Exception):
    """A custom exception class no engine code knows about."""


EXC_TYPES: Dict[str, Callable[[], BaseException]] = {
    "ValueError": lambda: ValueError("injected"),
    "KeyError": lambda: KeyError("injected"),
    "TypeError": lambda: TypeError("injected"),
    "RuntimeError": lambda: RuntimeError("injected"),
    "OSError": lambda: OSError(errno.EIO, "injected EIO"),
    "UnicodeError": lambda: UnicodeDecodeError("utf-8", b"\xff", 0, 1, "injected"),
    "ZeroDivisionError": lambda: ZeroDivisionError("injected"),
    "MemoryError": lambda: MemoryError("injected"),
    "RecursionError": lambda: RecursionError("injected"),
    "AssertionError": lambda: AssertionError("injected"),
    "AttributeError": lambda: AttributeError("injected"),
    "IndexError": lambda: IndexError("injected"),
    "SimInjected": lambda: SimInjected("injected"),
}


class Sites:
    """Rebinds module attributes to raising wrappers; restores on exit.

    spec: list of {"site": name, "exc": type name, "when": "always"|[occurrence indices]}
          ("idle": True turns the same occurrences into calls that do nothing and return "idle_value")
    registry: name -> (module name, attribute)
    """

    def __init__(self, registry: Dict[str, Any], spec: List[Dict[str, Any]]):
        self.registry = registry
        self.spec = spec
        self.fired: Dict[str, int] = {}
        self.calls: Dict[str, int] = {}
        self._saved: List[Any] = []

    def __enter__(self) -> "Sites":
        for f in self.spec:
            name = f["site"]
            targets = self.registry[name]
            if isinstance(targets, tuple):
                targets = [targets]
            for modname, attr in targets:
                mod = importlib.import_module(modname) if isinstance(modname, str) else modname
                orig = getattr(mod, attr)
                self._saved.append((mod, attr, orig))
                setattr(mod, attr, self._wrap(name, orig, f))
        return self

    def _wrap(self, name: str, orig: Any, f: Dict[str, Any]) -> Any:
        def wrapper(*a, **k):
            n = self.calls.get(name, 0)
            self.calls[name] = n + 1
            when = f.get("when", "always")
            if when == "always" or n in when:
                if f.get("idle"):
                    # the twin of a failing call: the same call does nothing (and says so by returning None)
                    self.fired[name + ":idle"] = self.fired.get(name + ":idle", 0) + 1
                    if callable(f.get("idle_call")):
                        return f["idle_call"](*a, **k)   # "does nothing" may still have to hand its input back
                    return f.get("idle_value")
                self.fired[name + ":" + f["exc"]] = self.fired.get(name + ":" + f["exc"], 0) + 1
                raise EXC_TYPES[f["exc"]]()
            return orig(*a, **k)
        wrapper.__wrapped__ = orig  # type: ignore[attr-defined]
        return wrapper

    def __exit__(self, *a) -> bool:
        for mod, attr, orig in reversed(self._saved):
            setattr(mod, attr, orig)
        self._saved = []
        return False
