import sys

from . import use_repo

use_repo()

from .runner import main  # noqa: E402

if __name__ == "__main__":
    if len(sys.argv) > 1 and sys.argv[1] == "selftest":
        from .selftest import main as st_main
        sys.exit(st_main(sys.argv[1:]))
    sys.exit(main())
