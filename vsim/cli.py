import sys

from . import use_repo

use_repo()

from .runner import main  # noqa: E402

if __name__ == "__main__":
    sys.exit(main())
