"""Per-run scratch directories on tmpfs; nothing is ever written under the repository."""
import os
import shutil
import tempfile

_BASE = None
_N = [0]


def base() -> str:
    global _BASE
    if _BASE is None or not _BASE.endswith("-%d" % os.getpid()):
        top = "/dev/shm" if os.path.isdir("/dev/shm") and os.access("/dev/shm", os.W_OK) else tempfile.gettempdir()
        _BASE = os.path.join(top, "vsim-%d" % os.getpid())
        os.makedirs(_BASE, exist_ok=True)
    return _BASE


class Scratch:
    """with Scratch() as root: ... ; the directory is removed afterwards."""

    def __init__(self, *subdirs: str):
        self.subdirs = subdirs
        self.root = None

    def __enter__(self) -> str:
        _N[0] += 1
        self.root = os.path.join(base(), "r%d" % _N[0])
        shutil.rmtree(self.root, ignore_errors=True)
        os.makedirs(self.root)
        for s in self.subdirs:
            os.makedirs(os.path.join(self.root, s), exist_ok=True)
        return self.root

    def __exit__(self, *a) -> bool:
        shutil.rmtree(self.root, ignore_errors=True)
        try:
            os.rmdir(base())
        except OSError:
            pass
        return False
