"""I/O interposer, fault injection and crash-state constructor (DESIGN 2.3).

While a SimFS is installed, every *mutating* file-system call whose path lies
under the run's scratch root goes through it: it is logged as an event, the
fault plan may turn it into an error, a short write or a crash, and a shadow
model records what would be durable if the machine lost power now.

Real files live in the scratch root (tmpfs), so all read paths of the code under
test work unchanged.
"""
from __future__ import annotations

import builtins
import errno as _errno
import io
import itertools
import os
import random as _random
import stat as _stat
import sys
import tempfile
from typing import Any, Callable, Dict, List, Optional, Tuple

from .rng import Stream


class SimCrash(BaseException):
    """The simulated process dies here.  Not an Exception on purpose."""


class HarnessError(Exception):
    pass


_REAL = {
    "open": builtins.open,
    "io_open": io.open,
    "os_open": os.open,
    "os_close": os.close,
    "os_fsync": os.fsync,
    "os_fdatasync": getattr(os, "fdatasync", None),
    "os_chmod": os.chmod,
    "os_replace": os.replace,
    "os_rename": os.rename,
    "os_unlink": os.unlink,
    "os_remove": os.remove,
    "os_mkdir": os.mkdir,
    "os_stat": os.stat,
    "os_write": os.write,
    "os_utime": os.utime,
    "os_truncate": os.truncate,
    "random_uniform": _random.uniform,
}

ERRNOS = {
    "EIO": _errno.EIO,
    "ENOSPC": _errno.ENOSPC,
    "EACCES": _errno.EACCES,
    "EBUSY": _errno.EBUSY,
    "EPERM": _errno.EPERM,
    "EINTR": _errno.EINTR,
    "EXDEV": _errno.EXDEV,
    "EROFS": _errno.EROFS,
    "EMFILE": _errno.EMFILE,
}

_NAME_CHARS = "abcdefghijklmnopqrstuvwxyz0123456789_"

# single process-wide pointer used by the audit hook
_ACTIVE: List[Optional["SimFS"]] = [None]
_AUDIT_INSTALLED = [False]


def _audit(event: str, args: tuple) -> None:
    fs = _ACTIVE[0]
    if fs is None or fs._inside or fs._harness:
        return
    try:
        if event == "open":
            path, mode, flags = args[0], args[1], args[2]
            if not isinstance(path, (str, bytes, os.PathLike)):
                return
            if isinstance(flags, int) and not (flags & (os.O_WRONLY | os.O_RDWR | os.O_CREAT | os.O_TRUNC | os.O_APPEND)):
                return
            rel = fs._rel(path)
            if rel is not None:
                fs.escaped.append(("open", rel))
        elif event in ("os.rename", "os.remove", "os.mkdir", "os.chmod", "os.truncate", "os.rmdir"):
            rel = fs._rel(args[0])
            if rel is not None and event != "os.mkdir":
                fs.escaped.append((event, rel))
    except Exception:
        pass


class FaultPlan:
    """A list of explicit faults.

    Each fault: {"k": event index, "kind": "crash"|"error"|"short",
                 "errno": name, "exc": "OSError"|"PermissionError",
                 "times": n (-1 = persistent), "keep": bytes kept by a short write}
    or addressed by occurrence: {"op": name, "nth": i, "path_end": suffix, ...}.
    An error with times=m fails the same (op, path) m times starting at k.
    """

    def __init__(self, faults: Optional[List[Dict[str, Any]]] = None):
        self.faults = [dict(f) for f in (faults or [])]
        self._sticky: Dict[Tuple[str, str], Dict[str, Any]] = {}
        self._occ: Dict[Tuple[str, str], int] = {}
        self.fired: Dict[str, int] = {}

    def _note(self, key: str) -> None:
        self.fired[key] = self.fired.get(key, 0) + 1

    def decide(self, k: int, op: str, rel: str) -> Optional[Dict[str, Any]]:
        st = self._sticky.get((op, rel))
        if st is not None:
            if st["left"] != 0:
                if st["left"] > 0:
                    st["left"] -= 1
                self._note("%s:%s" % (st["f"].get("kind"), st["f"].get("errno", "")))
                return st["f"]
            del self._sticky[(op, rel)]
        for f in self.faults:
            if f.get("_done"):
                continue
            hit = False
            if "k" in f and f["k"] is not None:
                hit = f["k"] == k
            elif "op" in f:
                if f["op"] == op and rel.endswith(f.get("path_end", "")):
                    key = (op, f.get("path_end", ""))
                    n = self._occ.get(key, 0)
                    self._occ[key] = n + 1
                    hit = n == int(f.get("nth", 0))
            if not hit:
                continue
            f["_done"] = True
            kind = f.get("kind", "error")
            if kind == "error":
                times = int(f.get("times", 1))
                if times != 1:
                    self._sticky[(op, rel)] = {"left": (times - 1 if times > 0 else -1), "f": f}
            self._note("%s:%s" % (kind, f.get("errno", "")))
            return f
        return None


def _raise_for(f: Dict[str, Any], op: str, rel: str) -> None:
    en = ERRNOS.get(str(f.get("errno", "EIO")), _errno.EIO)
    if f.get("exc") == "PermissionError":
        raise PermissionError(_errno.EACCES, "simulated PermissionError at %s" % op, rel)
    raise OSError(en, "simulated %s at %s" % (f.get("errno", "EIO"), op), rel)


class Shadow:
    """Durability model: what survives a power loss (ordered-mode POSIX)."""

    def __init__(self) -> None:
        self.dirs: Dict[str, Dict[str, Any]] = {}
        self.inodes: Dict[int, Dict[str, Any]] = {}

    def _dir(self, d: str) -> Dict[str, Any]:
        x = self.dirs.get(d)
        if x is None:
            x = self.dirs[d] = {"durable": {}, "pending": []}
        return x

    def adopt(self, root: str) -> None:
        for cur, _dn, files in os.walk(root):
            rel = os.path.relpath(cur, root)
            rel = "" if rel == "." else rel
            d = self._dir(rel)
            for n in sorted(files):
                p = os.path.join(cur, n)
                ino = _REAL["os_stat"](p).st_ino
                with _REAL["open"](p, "rb") as fh:
                    data = fh.read()
                d["durable"][n] = ino
                self.inodes[ino] = {"durable": data, "cur": data, "pending": []}

    @staticmethod
    def _split(rel: str) -> Tuple[str, str]:
        d, n = os.path.split(rel)
        return d, n

    def current_names(self, d: str) -> Dict[str, int]:
        x = self._dir(d)
        m = dict(x["durable"])
        for op in x["pending"]:
            self._apply_dirop(m, op)
        return m

    @staticmethod
    def _apply_dirop(m: Dict[str, int], op: tuple) -> None:
        if op[0] == "link":
            m[op[1]] = op[2]
        elif op[0] == "unlink":
            m.pop(op[1], None)
        elif op[0] == "rename":
            ino = m.pop(op[1], None)
            if ino is not None:
                m[op[2]] = ino

    def create(self, rel: str, ino: int) -> None:
        d, n = self._split(rel)
        self._dir(d)["pending"].append(("link", n, ino))
        self.inodes.setdefault(ino, {"durable": b"", "cur": b"", "pending": []})

    def ensure(self, rel: str, ino: int, data: bytes) -> None:
        if ino not in self.inodes:
            self.inodes[ino] = {"durable": data, "cur": data, "pending": []}
            d, n = self._split(rel)
            self._dir(d)["durable"].setdefault(n, ino)

    def truncate(self, ino: int) -> None:
        i = self.inodes[ino]
        if i["cur"]:
            i["pending"].append(("trunc",))
            i["cur"] = b""

    def write(self, ino: int, off: int, data: bytes) -> None:
        i = self.inodes[ino]
        cur = i["cur"]
        if off > len(cur):
            cur = cur + b"\0" * (off - len(cur))
        i["cur"] = cur[:off] + data + cur[off + len(data):]
        i["pending"].append(("write", off, data))

    def fsync(self, ino: int) -> None:
        i = self.inodes.get(ino)
        if i is not None:
            i["durable"] = i["cur"]
            i["pending"] = []

    def rename(self, a: str, b: str) -> None:
        da, na = self._split(a)
        db, nb = self._split(b)
        if da == db:
            self._dir(da)["pending"].append(("rename", na, nb))
        else:
            ino = self.current_names(da).get(na)
            self._dir(da)["pending"].append(("unlink", na))
            if ino is not None:
                self._dir(db)["pending"].append(("link", nb, ino))

    def unlink(self, rel: str) -> None:
        d, n = self._split(rel)
        self._dir(d)["pending"].append(("unlink", n))

    def fsync_dir(self, d: str) -> None:
        x = self._dir(d)
        m = x["durable"]
        for op in x["pending"]:
            self._apply_dirop(m, op)
        x["pending"] = []

    # -- crash states ------------------------------------------------------
    def _inode_options(self, ino: int) -> List[bytes]:
        i = self.inodes.get(ino)
        if i is None:
            return [b""]
        outs: List[bytes] = [i["durable"]]
        cur = i["durable"]
        for op in i["pending"]:
            if op[0] == "trunc":
                cur = b""
                outs.append(cur)
            else:
                _, off, data = op
                base = cur if off <= len(cur) else cur + b"\0" * (off - len(cur))
                n = len(data)
                for cut in sorted({1, n // 2, n - 1}):
                    if 0 < cut < n:
                        outs.append(base[:off] + data[:cut] + base[off + cut:])
                cur = base[:off] + data + base[off + n:]
                outs.append(cur)
        seen, uniq = set(), []
        for o in outs:
            if o not in seen:
                seen.add(o)
                uniq.append(o)
        return uniq

    def crash_states(self, limit: int = 256, stream: Optional[Stream] = None) -> Tuple[List[Dict[str, bytes]], bool]:
        """All (or a sample of) on-disk states after power loss.

        Returns (states, exhaustive).  A state maps relative path -> bytes.
        """
        dir_names = sorted(self.dirs)
        dir_choices = [range(len(self.dirs[d]["pending"]) + 1) for d in dir_names]
        combos: List[Tuple[List[str], List[List[bytes]]]] = []
        total = 0
        for pick in itertools.product(*dir_choices):
            ns: Dict[str, int] = {}
            for d, upto in zip(dir_names, pick):
                m = dict(self.dirs[d]["durable"])
                for op in self.dirs[d]["pending"][:upto]:
                    self._apply_dirop(m, op)
                for n, ino in m.items():
                    ns[os.path.join(d, n) if d else n] = ino
            paths = sorted(ns)
            opts = [self._inode_options(ns[p]) for p in paths]
            cnt = 1
            for o in opts:
                cnt *= len(o)
            total += cnt
            combos.append((paths, opts))
        exhaustive = total <= limit
        states: List[Dict[str, bytes]] = []
        for paths, opts in combos:
            if exhaustive:
                for tup in itertools.product(*opts):
                    states.append(dict(zip(paths, tup)))
            else:
                states.append({p: o[0] for p, o in zip(paths, opts)})
                states.append({p: o[-1] for p, o in zip(paths, opts)})
                per = max(1, limit // max(1, len(combos)) - 2)
                for _ in range(per):
                    if stream is None:
                        break
                    states.append({p: o[stream.below(len(o))] for p, o in zip(paths, opts)})
        return states, exhaustive


class SimRaw(io.RawIOBase):
    """Raw file whose every write is one intercepted event."""

    def __init__(self, fs: "SimFS", fd: int, rel: str, ino: int, append: bool, pos: int = 0):
        super().__init__()
        self._fs, self._fd, self._rel, self._ino = fs, fd, rel, ino
        self._append = append
        self._pos = pos
        self.name = os.path.join(fs.root, rel)
        self.mode = "ab" if append else "wb"

    def writable(self) -> bool:
        return True

    def readable(self) -> bool:
        return False

    def seekable(self) -> bool:
        return False

    def fileno(self) -> int:
        return self._fd

    def write(self, b) -> int:  # type: ignore[override]
        data = bytes(b)
        fs = self._fs
        if fs.dead:
            return len(data)
        if not data:
            return 0
        fs.yield_point("write", self._rel)
        act = fs._event("write", self._rel, len(data))
        if act is not None and act.get("kind") == "short":
            keep = int(act.get("keep", len(data) // 2))
            keep = max(0, min(len(data) - 1, keep))
            data = data[:keep]
        fs._inside += 1
        try:
            if self._append:
                off = len(fs.shadow.inodes[self._ino]["cur"])
            else:
                off = self._pos
            n = 0
            while n < len(data):
                n += _REAL["os_write"](self._fd, data[n:])
            fs.shadow.write(self._ino, off, data)
            self._pos = off + len(data)
            fs._touch(self._rel)
        finally:
            fs._inside -= 1
        fs._after("write", self._rel)
        return len(data)

    def close(self) -> None:
        if self.closed:
            return
        fs = self._fs
        err: Optional[BaseException] = None
        try:
            if not fs.dead:
                try:
                    fs._event("close", self._rel)
                except OSError as e:  # injected close failure: still release the fd
                    err = e
        finally:
            try:
                super().close()
            finally:
                fs._inside += 1
                try:
                    _REAL["os_close"](self._fd)
                except OSError:
                    pass
                finally:
                    fs._inside -= 1
                fs.fds.pop(self._fd, None)
        if err is not None:
            raise err
        if not fs.dead:
            fs._after("close", self._rel)


class _Names:
    def __init__(self, stream: Optional[Stream]):
        self.s = stream
        self.n = 0

    def __iter__(self):
        return self

    def __next__(self) -> str:
        self.n += 1
        if self.s is None:
            return "t%07d" % self.n
        return "".join(_NAME_CHARS[self.s.below(len(_NAME_CHARS))] for _ in range(8))


class SimFS:
    def __init__(self, root: str, *, names: Optional[Stream] = None, jitter: Optional[Stream] = None,
                 plan: Optional[FaultPlan] = None, clock: Any = None, trace_stat: bool = False,
                 yield_fn: Optional[Callable[[str, str], None]] = None):
        self.root = os.path.realpath(root)
        self.plan = plan or FaultPlan()
        self.clock = clock
        self.trace: List[Tuple[int, str, str, Any, Optional[str]]] = []
        self.dead = False
        self.crashed_at: Optional[int] = None
        self.fds: Dict[int, Tuple[str, str, int]] = {}
        self.shadow = Shadow()
        self.after_event: Optional[Callable[[int, str, str], None]] = None
        self.trace_stat = trace_stat
        self.escaped: List[Tuple[str, str]] = []
        self.unmodelled: List[str] = []
        self._inside = 0
        self._harness = 0
        self._names = _Names(names)
        self._jitter = jitter
        self._installed = False
        self._saved: Dict[str, Any] = {}
        self._yield = yield_fn

    # ------------------------------------------------------------------
    def _rel(self, path: Any) -> Optional[str]:
        try:
            p = os.fspath(path)
        except TypeError:
            return None
        if isinstance(p, bytes):
            p = os.fsdecode(p)
        if not p.startswith("/"):
            p = os.path.join(os.getcwd(), p)
        p = os.path.normpath(p)
        if p == self.root:
            return ""
        if p.startswith(self.root + "/"):
            return p[len(self.root) + 1:]
        return None

    def yield_point(self, op: str, rel: str) -> None:
        if self._yield is not None and not self.dead:
            self._yield(op, rel)

    def _event(self, op: str, rel: str, detail: Any = None, mutating: bool = True) -> Optional[Dict[str, Any]]:
        if self.dead:
            raise SimCrash("dead")
        k = len(self.trace)
        act = self.plan.decide(k, op, rel)
        kind = act.get("kind", "error") if act else None
        self.trace.append((k, op, rel, detail, kind if mutating else (kind or "ro")))
        if act is None:
            return None
        if kind == "crash":
            self.dead = True
            self.crashed_at = k
            raise SimCrash("crash at event %d (%s %s)" % (k, op, rel))
        if kind == "error":
            _raise_for(act, op, rel)
        return act

    def _after(self, op: str, rel: str) -> None:
        cb = self.after_event
        if cb is not None and not self.dead:
            self._harness += 1
            try:
                cb(len(self.trace) - 1, op, rel)
            finally:
                self._harness -= 1

    def _touch(self, rel: str) -> None:
        if self.clock is not None:
            ns = int(self.clock.wall_ns)
            try:
                _REAL["os_utime"](os.path.join(self.root, rel), ns=(ns, ns))
            except OSError:
                pass

    class _H:
        def __init__(self, fs: "SimFS"):
            self.fs = fs

        def __enter__(self):
            self.fs._harness += 1
            return self.fs

        def __exit__(self, *a):
            self.fs._harness -= 1
            return False

    def harness(self) -> "SimFS._H":
        """Context in which the harness itself may touch the scratch root."""
        return SimFS._H(self)

    def mutating_events(self) -> List[int]:
        return [k for (k, _op, _rel, _d, kind) in self.trace if kind != "ro"]

    def trace_digest_lines(self) -> List[str]:
        return ["%d %s %s %s %s" % (k, op, rel, d, kind) for (k, op, rel, d, kind) in self.trace]

    # ------------------------------------------------------------------
    def _fd_target(self, fd: int) -> Optional[Tuple[str, str, int]]:
        t = self.fds.get(fd)
        if t is not None:
            return t
        try:
            p = os.readlink("/proc/self/fd/%d" % fd)
        except OSError:
            return None
        rel = self._rel(p)
        if rel is None:
            return None
        try:
            st = os.fstat(fd)
        except OSError:
            return None
        return ("dir" if _stat.S_ISDIR(st.st_mode) else "file", rel, st.st_ino)

    # patched entry points ------------------------------------------------
    def _p_os_open(self, path, flags, mode=0o777, *, dir_fd=None):
        rel = self._rel(path) if dir_fd is None else None
        if rel is None or self._harness:
            return _REAL["os_open"](path, flags, mode, dir_fd=dir_fd)
        full = os.path.join(self.root, rel)
        isdir = os.path.isdir(full)
        if isdir or (flags & getattr(os, "O_DIRECTORY", 0)):
            self._event("open_dir", rel, None, mutating=False)
            fd = _REAL["os_open"](path, flags, mode)
            self.fds[fd] = ("dir", rel, 0)
            return fd
        writing = bool(flags & (os.O_WRONLY | os.O_RDWR | os.O_CREAT | os.O_TRUNC | os.O_APPEND))
        if not writing:
            return _REAL["os_open"](path, flags, mode)
        existed = os.path.lexists(full)
        op = "create" if (flags & os.O_CREAT and not existed) else "open_w"
        self.yield_point(op, rel)
        self._event(op, rel)
        self._inside += 1
        try:
            fd = _REAL["os_open"](path, flags, mode)
            ino = os.fstat(fd).st_ino
            if not existed:
                self.shadow.create(rel, ino)
                self._touch(rel)
            else:
                self._ensure(rel, ino)
                if flags & os.O_TRUNC:
                    self.shadow.truncate(ino)
            self.fds[fd] = ("file", rel, ino)
        finally:
            self._inside -= 1
        self._after(op, rel)
        return fd

    def _ensure(self, rel: str, ino: int) -> None:
        if ino not in self.shadow.inodes:
            with _REAL["open"](os.path.join(self.root, rel), "rb") as fh:
                data = fh.read()
            self.shadow.ensure(rel, ino, data)

    def _p_os_close(self, fd):
        self.fds.pop(fd, None)
        return _REAL["os_close"](fd)

    def _p_os_fsync(self, fd):
        t = None if self._harness else self._fd_target(fd)
        if t is None:
            return _REAL["os_fsync"](fd)
        kind, rel, ino = t
        if kind == "dir":
            self._event("fsync_dir", rel)
            self.shadow.fsync_dir(rel)
            self._after("fsync_dir", rel)
            return None
        self._event("fsync", rel)
        self._ensure(rel, ino)
        self.shadow.fsync(ino)
        self._after("fsync", rel)
        return None

    def _p_os_chmod(self, path, mode, *, dir_fd=None, follow_symlinks=True):
        rel = self._rel(path) if dir_fd is None else None
        if rel is None or self._harness:
            return _REAL["os_chmod"](path, mode, dir_fd=dir_fd, follow_symlinks=follow_symlinks)
        self._event("chmod", rel, oct(mode & 0o7777))
        self._inside += 1
        try:
            _REAL["os_chmod"](path, mode)
        finally:
            self._inside -= 1
        self._after("chmod", rel)

    def _p_os_replace(self, src, dst, *, src_dir_fd=None, dst_dir_fd=None):
        return self._rename("replace", src, dst, src_dir_fd, dst_dir_fd)

    def _p_os_rename(self, src, dst, *, src_dir_fd=None, dst_dir_fd=None):
        return self._rename("rename", src, dst, src_dir_fd, dst_dir_fd)

    def _rename(self, op, src, dst, sfd, dfd):
        real = _REAL["os_replace"] if op == "replace" else _REAL["os_rename"]
        ra = self._rel(src) if sfd is None else None
        rb = self._rel(dst) if dfd is None else None
        if ra is None or rb is None or self._harness:
            return real(src, dst, src_dir_fd=sfd, dst_dir_fd=dfd)
        self.yield_point(op, rb)
        self._event(op, rb, ra)
        self._inside += 1
        try:
            real(src, dst)
            self.shadow.rename(ra, rb)
        finally:
            self._inside -= 1
        self._after(op, rb)

    def _p_os_unlink(self, path, *, dir_fd=None):
        rel = self._rel(path) if dir_fd is None else None
        if rel is None or self._harness:
            return _REAL["os_unlink"](path, dir_fd=dir_fd)
        self._event("unlink", rel)
        self._inside += 1
        try:
            _REAL["os_unlink"](path)
            self.shadow.unlink(rel)
        finally:
            self._inside -= 1
        self._after("unlink", rel)

    def _p_os_mkdir(self, path, mode=0o777, *, dir_fd=None):
        rel = self._rel(path) if dir_fd is None else None
        if rel is None or self._harness:
            return _REAL["os_mkdir"](path, mode, dir_fd=dir_fd)
        self._event("mkdir", rel, None, mutating=False)
        self._inside += 1
        try:
            return _REAL["os_mkdir"](path, mode)
        finally:
            self._inside -= 1

    def _p_os_stat(self, path, *, dir_fd=None, follow_symlinks=True):
        if self.trace_stat and not self._harness and not self._inside and dir_fd is None and not isinstance(path, int):
            rel = self._rel(path)
            if rel is not None and not self.dead:
                self._event("stat", rel, None, mutating=False)
        return _REAL["os_stat"](path, dir_fd=dir_fd, follow_symlinks=follow_symlinks)

    def _p_os_truncate(self, path, length):
        rel = None if isinstance(path, int) else self._rel(path)
        if rel is not None and not self._harness:
            self.unmodelled.append("truncate:" + rel)
        return _REAL["os_truncate"](path, length)

    def _p_open(self, file, mode="r", buffering=-1, encoding=None, errors=None, newline=None,
                closefd=True, opener=None):
        rel = None
        if not isinstance(file, int) and opener is None and not self._harness:
            rel = self._rel(file)
        if opener is not None and not isinstance(file, int) and not self._harness:
            # tempfile: the opener calls (patched) os.open, which is where the event is logged
            self._inside += 1
            try:
                return _REAL["open"](file, mode, buffering, encoding, errors, newline, closefd, opener)
            finally:
                self._inside -= 1
        if rel is None or not any(c in mode for c in "wax+"):
            return _REAL["open"](file, mode, buffering, encoding, errors, newline, closefd, opener)
        if "+" in mode:
            self.unmodelled.append("open:%s:%s" % (mode, rel))
            return _REAL["open"](file, mode, buffering, encoding, errors, newline, closefd, opener)
        full = os.path.join(self.root, rel)
        append = "a" in mode
        excl = "x" in mode
        existed = os.path.lexists(full)
        if excl and existed:
            raise FileExistsError(_errno.EEXIST, "File exists", os.fspath(file))
        op = "create" if not existed else ("open_a" if append else "open_w")
        self.yield_point(op, rel)
        self._event(op, rel)
        flags = os.O_WRONLY | os.O_CREAT | getattr(os, "O_CLOEXEC", 0)
        flags |= os.O_APPEND if append else (os.O_EXCL if excl else os.O_TRUNC)
        self._inside += 1
        try:
            fd = _REAL["os_open"](full, flags, 0o666)
            ino = os.fstat(fd).st_ino
            if not existed:
                self.shadow.create(rel, ino)
                self._touch(rel)
            else:
                self._ensure(rel, ino)
                if not append:
                    self.shadow.truncate(ino)
            self.fds[fd] = ("file", rel, ino)
        finally:
            self._inside -= 1
        raw = SimRaw(self, fd, rel, ino, append)
        self._after(op, rel)
        binary = "b" in mode
        if binary:
            if buffering == 0:
                return raw
            size = io.DEFAULT_BUFFER_SIZE if buffering in (-1, 1) else int(buffering)
            return io.BufferedWriter(raw, size)
        if buffering == 0:
            raise ValueError("can't have unbuffered text I/O")
        size = io.DEFAULT_BUFFER_SIZE if buffering in (-1, 1) else int(buffering)
        return io.TextIOWrapper(io.BufferedWriter(raw, size), encoding or "utf-8", errors, newline,
                                line_buffering=(buffering == 1))

    def _p_uniform(self, a, b):
        if self._jitter is None:
            return a
        return self._jitter.uniform(a, b)

    # install / uninstall ---------------------------------------------------
    def install(self) -> "SimFS":
        if self._installed:
            return self
        if _ACTIVE[0] is not None:
            raise HarnessError("another SimFS is active")
        os.makedirs(self.root, exist_ok=True)
        self.shadow.adopt(self.root)
        if not _AUDIT_INSTALLED[0]:
            sys.addaudithook(_audit)
            _AUDIT_INSTALLED[0] = True
        self._saved = {"names": tempfile._name_sequence}  # type: ignore[attr-defined]
        builtins.open = self._p_open  # type: ignore
        io.open = self._p_open  # type: ignore
        os.open = self._p_os_open  # type: ignore
        os.close = self._p_os_close  # type: ignore
        os.fsync = self._p_os_fsync  # type: ignore
        if _REAL["os_fdatasync"] is not None:
            os.fdatasync = self._p_os_fsync  # type: ignore
        os.chmod = self._p_os_chmod  # type: ignore
        os.replace = self._p_os_replace  # type: ignore
        os.rename = self._p_os_rename  # type: ignore
        os.unlink = self._p_os_unlink  # type: ignore
        os.remove = self._p_os_unlink  # type: ignore
        os.mkdir = self._p_os_mkdir  # type: ignore
        os.stat = self._p_os_stat  # type: ignore
        os.truncate = self._p_os_truncate  # type: ignore
        _random.uniform = self._p_uniform  # type: ignore
        tempfile._name_sequence = self._names  # type: ignore[attr-defined]
        _ACTIVE[0] = self
        self._installed = True
        return self

    def uninstall(self) -> None:
        if not self._installed:
            return
        builtins.open = _REAL["open"]
        io.open = _REAL["io_open"]
        os.open = _REAL["os_open"]
        os.close = _REAL["os_close"]
        os.fsync = _REAL["os_fsync"]
        if _REAL["os_fdatasync"] is not None:
            os.fdatasync = _REAL["os_fdatasync"]
        os.chmod = _REAL["os_chmod"]
        os.replace = _REAL["os_replace"]
        os.rename = _REAL["os_rename"]
        os.unlink = _REAL["os_unlink"]
        os.remove = _REAL["os_remove"]
        os.mkdir = _REAL["os_mkdir"]
        os.stat = _REAL["os_stat"]
        os.truncate = _REAL["os_truncate"]
        _random.uniform = _REAL["random_uniform"]
        tempfile._name_sequence = self._saved.get("names")  # type: ignore[attr-defined]
        _ACTIVE[0] = None
        self._installed = False
        for fd in list(self.fds):
            self.fds.pop(fd, None)

    def __enter__(self) -> "SimFS":
        return self.install()

    def __exit__(self, *a) -> bool:
        self.uninstall()
        return False

    # helpers for oracles -----------------------------------------------------
    def read(self, rel: str) -> Optional[bytes]:
        p = os.path.join(self.root, rel)
        try:
            with _REAL["open"](p, "rb") as fh:
                return fh.read()
        except FileNotFoundError:
            return None

    def listing(self, reldir: str = "") -> List[str]:
        p = os.path.join(self.root, reldir)
        try:
            return sorted(os.listdir(p))
        except FileNotFoundError:
            return []


def materialise(state: Dict[str, bytes], dest: str) -> None:
    """Write a crash state into directory `dest` (harness-side, real I/O)."""
    for rel, data in state.items():
        p = os.path.join(dest, rel)
        os.makedirs(os.path.dirname(p), exist_ok=True)
        with _REAL["open"](p, "wb") as fh:
            fh.write(data)


class DirOrder:
    """Directory-enumeration seam: os.listdir / os.scandir under `root` answer in a seeded permutation.

    POSIX promises no order for readdir(); real file systems answer in hash, creation or b-tree order, and the order
    changes when a directory is restored from a backup.  `seed=None` means sorted order (the reference environment).
    """

    def __init__(self, root: str, seed: Optional[int]):
        self.root = os.path.realpath(root)
        self.seed = seed
        self.calls = 0

    def _mine(self, path: Any) -> bool:
        if isinstance(path, int) or path is None:
            return False
        try:
            p = os.path.realpath(os.fspath(path))
        except Exception:
            return False
        if isinstance(p, bytes):
            return False
        return p == self.root or p.startswith(self.root + os.sep)

    def _order(self, names: List[str], path: Any) -> List[str]:
        names = sorted(names)
        if self.seed is None or len(names) < 2:
            return names
        from .rng import H, Stream
        st = Stream(H(int(self.seed), os.path.relpath(os.path.realpath(os.fspath(path)), self.root), len(names)), "dirorder")
        st.shuffle(names)
        return names

    def __enter__(self) -> "DirOrder":
        self._saved = (os.listdir, os.scandir)
        real_listdir, real_scandir = self._saved
        outer = self

        def listdir(path="."):
            out = real_listdir(path)
            if outer._mine(path):
                outer.calls += 1
                return outer._order(list(out), path)
            return out

        class _Scan:
            def __init__(self, entries):
                self._it = iter(entries)

            def __iter__(self):
                return self

            def __next__(self):
                return next(self._it)

            def __enter__(self):
                return self

            def __exit__(self, *a):
                return False

            def close(self):
                pass

        def scandir(path="."):
            if not outer._mine(path):
                return real_scandir(path)
            with real_scandir(path) as it:
                entries = list(it)
            outer.calls += 1
            by_name = {e.name: e for e in entries}
            return _Scan([by_name[n] for n in outer._order(list(by_name), path)])

        os.listdir = listdir  # type: ignore
        os.scandir = scandir  # type: ignore
        return self

    def __exit__(self, *a: Any) -> bool:
        os.listdir, os.scandir = self._saved  # type: ignore
        return False
