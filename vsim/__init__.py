"""vsim - deterministic simulation with fault injection for vecipher/Clematis3.

One integer (VERIF_SEED, run index) decides every run.  See /verif/DESIGN.md.
"""
import os
import sys

REPO = os.environ.get("VERIF_REPO", "/repo")
GUARD = "CLEMATIS3_VERIF"


def use_repo() -> str:
    """Make `clematis` / `configs` resolve to the working tree under test."""
    repo = os.path.realpath(REPO)
    if sys.path[0:1] != [repo]:
        while repo in sys.path:
            sys.path.remove(repo)
        sys.path.insert(0, repo)
    sys.dont_write_bytecode = True
    os.environ.setdefault("CI", "true")
    # the first process of a check stamps the tree; every interpreter started later compares (vsim.child)
    os.environ.setdefault("VSIM_REPO_STAMP", repo_stamp())
    return repo


def repo_stamp() -> str:
    """Identity of the source tree under test: names, sizes and mtimes of its Python and YAML files."""
    import hashlib
    repo = os.path.realpath(REPO)
    h = hashlib.sha256()
    for top in ("clematis", "configs"):
        for d, dirs, files in os.walk(os.path.join(repo, top)):
            dirs[:] = sorted(x for x in dirs if x != "__pycache__")
            for f in sorted(files):
                if f.endswith((".py", ".yaml", ".yml", ".json")):
                    try:
                        st = os.stat(os.path.join(d, f))
                        h.update(("%s/%s:%d:%d\n" % (os.path.relpath(d, repo), f, st.st_size, st.st_mtime_ns)).encode())
                    except OSError:
                        pass
    return h.hexdigest()[:16]
