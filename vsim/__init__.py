"""vsim - deterministic simulation with fault injection for vecipher/Clematis3.

One integer (VERIF_SEED, run index) decides every run.  See /verif/DESIGN.md.
"""
import os
import sys

REPO = os.environ.get("VERIF_REPO", "/repo")
GUARD = "CLEMATIS3_VERIF"


def use_repo() -> str:
    """Make `clematis` / `configs` resolve to the working tree under test."""
    repo = os.path.realpath(REPO)
    if sys.path[0:1] != [repo]:
        while repo in sys.path:
            sys.path.remove(repo)
        sys.path.insert(0, repo)
    sys.dont_write_bytecode = True
    os.environ.setdefault("CI", "true")
    return repo
