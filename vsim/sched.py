"""Baton-passing thread scheduler (DESIGN 2.4).

Real Python threads, but exactly one runs at a time and the seeded `sched` stream
decides who runs next at every yield point.  The vector of choices is the schedule:
recorded, hashed for the "distinct interleavings" measure, replayable.

Yield points: task start/end, SimRLock acquire/release, explicit yield_point()
calls of interposed I/O, and (optionally) every line event of named source files.
"""
from __future__ import annotations

import hashlib
import sys
import threading
from typing import Any, Callable, Dict, List, Optional, Sequence

from .rng import Stream


class SchedError(Exception):
    pass


class Deadlock(SchedError):
    pass


_TLS = threading.local()
_REAL_RLOCK = threading.RLock


def current_thread() -> Optional["SimThread"]:
    return getattr(_TLS, "sim", None)


class SimThread:
    def __init__(self, sched: "Sched", fn: Callable[[], Any], name: str):
        self.sched = sched
        self.fn = fn
        self.name = name
        self.idx = len(sched.threads)
        self.go = threading.Semaphore(0)
        self.state = "ready"
        self.blocked_on: Optional["SimRLock"] = None
        self.result: Any = None
        self.exc: Optional[BaseException] = None
        self.thread = threading.Thread(target=self._body, name="sim-%s" % name, daemon=True)

    def _body(self) -> None:
        self.go.acquire()
        _TLS.sim = self
        tracer = self.sched._tracer
        if tracer is not None:
            sys.settrace(tracer)
        try:
            if not self.sched.aborted:
                self.result = self.fn()
        except BaseException as e:  # noqa: BLE001
            self.exc = e
        finally:
            if tracer is not None:
                sys.settrace(None)
            self.sched._done_seq += 1
            self.done_seq = self.sched._done_seq
            self.state = "done"
            self.sched._ctl.release()


class Sched:
    current: Optional["Sched"] = None

    def __init__(self, stream: Optional[Stream], step_cap: int = 50_000, trace_files: Sequence[str] = (),
                 script: Optional[List[int]] = None):
        self.stream = stream
        self.step_cap = step_cap
        self.threads: List[SimThread] = []
        self.choices: List[int] = []
        self.script = list(script) if script is not None else None
        self.steps = 0
        self.aborted = False
        self._done_seq = 0
        self._ctl = threading.Semaphore(0)
        self.labels: Dict[str, int] = {}
        self._trace_files = tuple(trace_files)
        self._tracer = self._make_tracer() if trace_files else None
        self.on_step: Optional[Callable[[], None]] = None

    # -- tracing ---------------------------------------------------------------
    def _make_tracer(self):
        files = self._trace_files
        sched = self

        def local(frame, event, arg):
            if event == "line":
                sched.yield_point("line")
            return local

        def glob(frame, event, arg):
            if event == "call" and frame.f_code.co_filename.endswith(files):
                return local
            return None
        return glob

    # -- threads ---------------------------------------------------------------
    def spawn(self, fn: Callable[[], Any], name: str = "") -> SimThread:
        t = SimThread(self, fn, name or "t%d" % len(self.threads))
        self.threads.append(t)
        t.thread.start()
        return t

    def _eligible(self) -> List[SimThread]:
        out = []
        for t in self.threads:
            if t.state != "ready":
                continue
            L = t.blocked_on
            if L is not None and L.owner is not None and L.owner is not t:
                continue
            out.append(t)
        return out

    def step(self) -> bool:
        """Advance one thread to its next yield point.  False when nothing is left to run."""
        el = self._eligible()
        if not el:
            if any(t.state != "done" for t in self.threads):
                raise Deadlock("no eligible thread: %s" % [(t.name, t.state, bool(t.blocked_on)) for t in self.threads])
            return False
        self.steps += 1
        if self.steps > self.step_cap:
            self.abort()
            raise SchedError("step cap %d exceeded" % self.step_cap)
        if self.script is not None and len(self.choices) < len(self.script):
            want = self.script[len(self.choices)]
            pick = next((t for t in el if t.idx == want), el[0])
        elif self.stream is not None:
            pick = el[self.stream.below(len(el))]
        else:
            pick = el[0]
        self.choices.append(pick.idx)
        pick.state = "running"
        pick.go.release()
        self._ctl.acquire()
        if self.on_step is not None:
            self.on_step()
        return True

    def run_until(self, pred: Callable[[], bool]) -> None:
        while not pred():
            if not self.step():
                if not pred():
                    raise Deadlock("nothing runnable but the awaited condition does not hold")
                return

    def run_all(self) -> None:
        while self.step():
            pass

    def abort(self) -> None:
        """Release every parked thread so that the process can go on (their work is discarded)."""
        self.aborted = True
        for t in self.threads:
            if t.state != "done":
                t.state = "running"
                t.go.release()

    def yield_point(self, label: str = "") -> None:
        t = current_thread()
        if t is None or t.sched is not self or self.aborted:
            return
        self.labels[label] = self.labels.get(label, 0) + 1
        t.state = "ready"
        self._ctl.release()
        t.go.acquire()

    def digest(self) -> str:
        return hashlib.blake2b(bytes(c % 256 for c in self.choices), digest_size=8).hexdigest()

    # -- context ---------------------------------------------------------------
    def __enter__(self) -> "Sched":
        self._prev = Sched.current
        Sched.current = self
        return self

    def __exit__(self, *a) -> bool:
        Sched.current = self._prev
        if any(t.state != "done" for t in self.threads):
            self.abort()
        for t in self.threads:
            t.thread.join(timeout=5)
        return False


class SimRLock:
    """Re-entrant lock whose contention is resolved by the scheduler."""

    def __init__(self, sched: Optional[Sched] = None):
        self._sched = sched
        self.owner: Any = None
        self.count = 0
        self.acquisitions = 0

    def _s(self) -> Optional[Sched]:
        return self._sched or Sched.current

    def acquire(self, blocking: bool = True, timeout: float = -1) -> bool:
        s = self._s()
        me: Any = current_thread() or "main"
        if s is not None and me != "main":
            s.yield_point("lock.acquire")
            while self.owner is not None and self.owner is not me:
                if not blocking:
                    return False
                me.blocked_on = self
                s.yield_point("lock.blocked")
                if s.aborted:
                    break
            me.blocked_on = None
        elif self.owner is not None and self.owner != me:
            raise SchedError("main thread would block on a SimRLock")
        self.owner = me
        self.count += 1
        self.acquisitions += 1
        return True

    def release(self) -> None:
        me: Any = current_thread() or "main"
        if self.owner is not me and self.owner != me:
            raise RuntimeError("cannot release un-acquired lock")
        self.count -= 1
        if self.count == 0:
            self.owner = None
        s = self._s()
        if s is not None and me != "main":
            s.yield_point("lock.release")

    __enter__ = acquire

    def __exit__(self, *a) -> None:
        self.release()


class ThreadingShim:
    """Stand-in for the `threading` module inside engine modules: RLock -> SimRLock while a scheduler is active."""

    def __getattr__(self, name: str) -> Any:
        return getattr(threading, name)

    @staticmethod
    def RLock():  # noqa: N802
        if Sched.current is not None:
            return SimRLock()
        return _REAL_RLOCK()


class SimFuture:
    def __init__(self, ex: "SimExecutor", fn: Callable[[], Any]):
        self._ex = ex
        self._fn = fn
        self._t: Optional[SimThread] = None

    def done(self) -> bool:
        return self._t is not None and self._t.state == "done"

    def result(self, timeout: Optional[float] = None) -> Any:
        ex = self._ex
        ex.sched.run_until(lambda: (ex._pump() or True) and self.done())
        assert self._t is not None
        if self._t.exc is not None:
            raise self._t.exc
        return self._t.result

    def exception(self, timeout: Optional[float] = None) -> Optional[BaseException]:
        ex = self._ex
        ex.sched.run_until(lambda: (ex._pump() or True) and self.done())
        return self._t.exc if self._t is not None else None


class SimExecutor:
    """Drop-in for ThreadPoolExecutor as run_parallel uses it (submit / result / context manager)."""

    stream_factory: Optional[Callable[[], Optional[Stream]]] = None
    last: Optional["SimExecutor"] = None
    created = 0

    def __init__(self, max_workers: Optional[int] = None, thread_name_prefix: str = "", **_kw: Any):
        self.max_workers = max(1, int(max_workers or 1))
        self._own = Sched.current is None
        if Sched.current is not None:
            self.sched = Sched.current
        else:
            f = SimExecutor.stream_factory
            self.sched = Sched(f() if f is not None else None)
        self._queue: List[SimFuture] = []
        self._futs: List[SimFuture] = []
        SimExecutor.last = self
        SimExecutor.created += 1

    def _running(self) -> int:
        return sum(1 for f in self._futs if f._t is not None and f._t.state != "done")

    def _pump(self) -> None:
        while self._queue and self._running() < self.max_workers:
            f = self._queue.pop(0)
            body = f._fn

            def task(body=body):
                self.sched.yield_point("task.start")
                try:
                    return body()
                finally:
                    self.sched.yield_point("task.end")
            f._t = self.sched.spawn(task, "w%d" % len(self.sched.threads))

    def submit(self, fn: Callable[..., Any], *a: Any, **k: Any) -> SimFuture:
        f = SimFuture(self, (lambda: fn(*a, **k)))
        self._futs.append(f)
        self._queue.append(f)
        self._pump()
        return f

    def shutdown(self, wait: bool = True, **_kw: Any) -> None:
        if wait:
            self.sched.run_until(lambda: (self._pump() or True) and all(f.done() for f in self._futs))
        if self._own:
            for t in self.sched.threads:
                t.thread.join(timeout=5)

    def __enter__(self) -> "SimExecutor":
        return self

    def __exit__(self, *a: Any) -> bool:
        self.shutdown(wait=True)
        return False


def sim_as_completed(futs, timeout: Optional[float] = None):
    """concurrent.futures.as_completed for SimFutures: yields in the order the scheduler let them finish."""
    pending = list(futs)
    while pending:
        ex = pending[0]._ex
        ex.sched.run_until(lambda: (ex._pump() or True) and any(f.done() for f in pending))
        ready = sorted([f for f in pending if f.done()], key=lambda f: f._t.done_seq)
        for f in ready:
            pending.remove(f)
            yield f


class ParallelSeams:
    """Context manager: the engine's thread pool, as_completed and cache locks run under a (new) seeded scheduler."""

    def __init__(self, stream: Optional[Stream]):
        self.stream = stream

    def __enter__(self) -> Sched:
        import clematis.engine.util.parallel as upar
        import clematis.engine.cache as ecache
        self._mods = (upar, ecache)
        self.saved = (upar.ThreadPoolExecutor, upar.as_completed, ecache.threading)
        upar.ThreadPoolExecutor = SimExecutor  # type: ignore
        upar.as_completed = sim_as_completed  # type: ignore
        ecache.threading = ThreadingShim()  # type: ignore
        self.sched = Sched(self.stream)
        self.sched.__enter__()
        SimExecutor.created = 0
        return self.sched

    def __exit__(self, *a: Any) -> bool:
        self.sched.__exit__(*a)
        upar, ecache = self._mods
        upar.ThreadPoolExecutor, upar.as_completed, ecache.threading = self.saved
        return False
