"""Seeded search driver: tiers, worker pool, minimisation, replay, known
findings, evidence (DESIGN 2.1, 2.8, 2.11, 3.3, 6).

A check module (checks/cXX.py) provides

    PROPERTY, LEVEL, RUNS = {"quick": n, "thorough": n}, RULE, REAL, STUBS,
    ASSUMPTIONS, generate(seed, tier) -> program, execute(program) -> outcome

where `program` is plain JSON data (the replay file *is* the program) and
`outcome` is a dict with keys
    violations: [{"cls":..., "sig":..., "detail":...}]
    stats:      {counter: int}       summed over runs
    faults:     {kind: int}          faults that actually fired
    nontrivial: bool,  key: str      (distinctness digest of the case)
    sim_s:      float                simulated seconds covered
    sched:      str|None             digest of the schedule choice vector
    log:        str                  digest of the full event log (determinism)
"""
from __future__ import annotations

import argparse
import concurrent.futures as cf
import copy
import faulthandler
import hashlib
import importlib
import json
import multiprocessing as mp
import os
import subprocess
import sys
import time
import traceback
from typing import Any, Callable, Dict, List, Optional, Tuple

from . import REPO
from .rng import H

VERIF = os.path.dirname(os.path.dirname(os.path.abspath(__file__)))
EXIT_OK, EXIT_VIOLATION, EXIT_HARNESS = 0, 1, 2


def digest(obj: Any) -> str:
    return hashlib.blake2b(json.dumps(obj, sort_keys=True, default=repr).encode("utf-8"), digest_size=8).hexdigest()


def load_check(pid: str):
    return importlib.import_module("checks.%s" % pid.lower())


def _is_repo_frame(fn: str) -> bool:
    repo = os.path.realpath(REPO)
    return os.path.realpath(fn).startswith(repo + os.sep)


def engine_exception_violation(e: BaseException) -> Optional[Dict[str, Any]]:
    """An exception that escaped the code under test -> violation record.

    Returns None when the innermost frame is harness code (a harness bug)."""
    tb = traceback.extract_tb(e.__traceback__)
    if not tb:
        return None
    inner = tb[-1]
    if not _is_repo_frame(inner.filename):
        # raised by the stdlib on behalf of repo code?  walk back to the last non-stdlib frame
        for fr in reversed(tb):
            if _is_repo_frame(fr.filename):
                inner = fr
                break
            if os.path.realpath(fr.filename).startswith(VERIF + os.sep):
                return None
        else:
            return None
    where = "%s:%s" % (os.path.basename(inner.filename), inner.name)
    return {
        "cls": "engine-exception",
        "sig": "exc:%s@%s" % (type(e).__name__, where),
        "detail": "%s: %s at %s line %s" % (type(e).__name__, str(e)[:200], where, inner.lineno),
    }


def safe_execute(mod, program: Dict[str, Any]) -> Dict[str, Any]:
    """Run one program; never raises (harness errors are reported in the outcome)."""
    try:
        import contextlib
        with open(os.devnull, "w") as _dn, contextlib.redirect_stderr(_dn):
            out = mod.execute(copy.deepcopy(program))
    except BaseException as e:  # noqa: BLE001 - includes SimCrash leaking = harness bug
        if isinstance(e, (KeyboardInterrupt, SystemExit)):
            raise
        v = engine_exception_violation(e) if isinstance(e, Exception) else None
        if v is not None:
            return {"violations": [v], "stats": {}, "faults": {}, "nontrivial": True, "key": "exc", "sim_s": 0.0,
                    "sched": None, "log": "exc"}
        return {"violations": [], "stats": {}, "faults": {}, "nontrivial": False, "key": "err", "sim_s": 0.0,
                "sched": None, "log": "err",
                "harness_error": "".join(traceback.format_exception(type(e), e, e.__traceback__))[-3000:]}
    out.setdefault("violations", [])
    out.setdefault("stats", {})
    out.setdefault("faults", {})
    out.setdefault("nontrivial", True)
    out.setdefault("key", digest(program))
    out.setdefault("sim_s", 0.0)
    out.setdefault("sched", None)
    out.setdefault("log", "")
    return out


# ---------------------------------------------------------------------------
# minimisation (ddmin over list-valued fields, then module-provided simplifiers)
# ---------------------------------------------------------------------------

def _same(out: Dict[str, Any], sig: str) -> bool:
    return any(v.get("sig") == sig for v in out.get("violations", []))


def minimise(mod, program: Dict[str, Any], sig: str, budget_s: float = 60.0) -> Tuple[Dict[str, Any], int]:
    t0 = time.time()
    tries = 0
    best = copy.deepcopy(program)

    def test(p: Dict[str, Any]) -> bool:
        nonlocal tries
        tries += 1
        return _same(safe_execute(mod, p), sig)

    fields = list(getattr(mod, "SHRINK_FIELDS", ["ops", "faults"]))
    changed = True
    while changed and time.time() - t0 < budget_s:
        changed = False
        for f in fields:
            xs = best.get(f)
            if not isinstance(xs, list) or not xs:
                continue
            n = 2
            while len(xs) >= 1 and time.time() - t0 < budget_s:
                chunk = max(1, len(xs) // n)
                reduced = False
                for i in range(0, len(xs), chunk):
                    cand_list = xs[:i] + xs[i + chunk:]
                    cand = dict(best)
                    cand[f] = cand_list
                    if test(cand):
                        xs = cand_list
                        best = cand
                        n = max(n - 1, 2)
                        reduced = True
                        changed = True
                        break
                if not reduced:
                    if chunk == 1:
                        break
                    n = min(len(xs), n * 2)
                if not xs:
                    break
        simp = getattr(mod, "simplify", None)
        if simp is not None:
            progress = True
            while progress and time.time() - t0 < budget_s:
                progress = False
                for cand in simp(copy.deepcopy(best)):
                    if time.time() - t0 >= budget_s:
                        break
                    if digest(cand) != digest(best) and test(cand):
                        best = cand
                        progress = True
                        changed = True
                        break
    return best, tries


# ---------------------------------------------------------------------------
# known findings
# ---------------------------------------------------------------------------

def load_known(pid: str) -> List[Dict[str, Any]]:
    p = os.path.join(VERIF, "known_findings.json")
    if not os.path.exists(p):
        return []
    with open(p, "r", encoding="utf-8") as fh:
        data = json.load(fh)
    return [e for e in data.get("findings", []) if e.get("property") == pid]


# ---------------------------------------------------------------------------
# worker side
# ---------------------------------------------------------------------------

_MOD = None


def _worker_chunk(args: Tuple[str, int, str, List[int]]) -> List[Dict[str, Any]]:
    pid, base_seed, tier, idxs = args
    global _MOD
    if _MOD is None or _MOD.PROPERTY != pid:
        _MOD = load_check(pid)
    faulthandler.enable()
    res = []
    for i in idxs:
        seed = H(base_seed, pid, i)
        faulthandler.dump_traceback_later(float(os.environ.get("VERIF_RUN_TIMEOUT_S", "120")), exit=True)
        try:
            t0 = time.perf_counter()
            try:
                program = _MOD.generate(seed, tier)
            except Exception as e:  # generator bug = harness error
                res.append({"i": i, "seed": seed, "harness_error": "generate: " + "".join(
                    traceback.format_exception(type(e), e, e.__traceback__))[-2000:]})
                continue
            from .clock import SimClock as _SC
            _ns0 = _SC.total_ns
            out = safe_execute(_MOD, program)
            if not out.get("sim_s"):
                out["sim_s"] = (_SC.total_ns - _ns0) / 1e9
            vs, seen_sigs = [], set()
            for v in out["violations"]:
                if v["sig"] not in seen_sigs and len(vs) < 12:
                    seen_sigs.add(v["sig"])
                    vs.append(v)
            out["violations"] = vs
            rec = {
                "i": i, "seed": seed, "violations": out["violations"], "stats": out["stats"], "keys": out.get("keys"),
                "faults": out["faults"], "nontrivial": bool(out["nontrivial"]), "key": out["key"],
                "sim_s": out["sim_s"], "sched": out["sched"], "log": out["log"],
                "wall": time.perf_counter() - t0,
            }
            if "harness_error" in out:
                rec["harness_error"] = out["harness_error"]
            if out["violations"] or i < 3:
                rec["program"] = program
            res.append(rec)
        finally:
            faulthandler.cancel_dump_traceback_later()
    return res


# ---------------------------------------------------------------------------
# parent side
# ---------------------------------------------------------------------------

def _add(dst: Dict[str, int], src: Dict[str, Any]) -> None:
    for k, v in (src or {}).items():
        try:
            dst[k] = dst.get(k, 0) + int(v)
        except Exception:
            pass


def _truncate(obj: Any, limit: int = 1500) -> Any:
    s = json.dumps(obj, default=repr, sort_keys=True)
    if len(s) <= limit:
        return obj
    return {"truncated_json": s[:limit] + "..."}


def run_replay(mod, path: str) -> int:
    with open(path, "r", encoding="utf-8") as fh:
        rp = json.load(fh)
    out = safe_execute(mod, rp["program"])
    want = (rp.get("violation") or {}).get("sig")
    if "harness_error" in out:
        print("HARNESS-ERROR during replay:\n" + out["harness_error"])
        return EXIT_HARNESS
    for v in out["violations"]:
        print("replayed: class=%s signature=%s detail=%s" % (v["cls"], v["sig"], str(v["detail"])[:400]))
    if want is not None and _same(out, want):
        print("VIOLATION property=%s replay=%s" % (mod.PROPERTY, path))
        return EXIT_VIOLATION
    if want is None and out["violations"]:
        print("VIOLATION property=%s replay=%s" % (mod.PROPERTY, path))
        return EXIT_VIOLATION
    print("replay: violation %r did not reproduce" % (want,))
    return EXIT_OK


def write_replay(mod, program: Dict[str, Any], v: Dict[str, Any], seed: int, extra: Optional[Dict[str, Any]] = None) -> str:
    d = os.path.join(VERIF, "replays", mod.PROPERTY)
    os.makedirs(d, exist_ok=True)
    name = "%s-%s.json" % ("".join(c if c.isalnum() or c in "-_." else "_" for c in v["sig"])[:80], seed)
    p = os.path.join(d, name)
    doc = {"property": mod.PROPERTY, "seed": seed, "violation": v, "program": program}
    if extra:
        doc.update(extra)
    with open(p, "w", encoding="utf-8") as fh:
        json.dump(doc, fh, indent=1, sort_keys=True, default=repr)
        fh.write("\n")
    return p


def run_check(pid: str, tier: str, base_seed: int, runs: Optional[int], jobs: int) -> int:
    t_start = time.time()
    mod = load_check(pid)
    n = int(runs if runs is not None else mod.RUNS[tier])
    jobs = max(1, min(jobs, n))
    print("vsim: property=%s tier=%s VERIF_SEED=%d runs=%d jobs=%d repo=%s" % (pid, tier, base_seed, n, jobs, REPO))
    sys.stdout.flush()

    known = [] if os.environ.get("VERIF_IGNORE_KNOWN") else load_known(pid)
    open_sigs: Dict[str, Dict[str, Any]] = {}
    for e in known:
        if e.get("status") == "open":
            for sg in (e.get("signatures") or [e.get("signature")]):
                open_sigs[sg] = e
    exit_code = EXIT_OK
    harness_errors: List[str] = []

    # 1. replay stored programs of open known findings
    known_reproduced = []
    printed_entries = set()
    for e in known:
        if e.get("status") != "open" or not e.get("replay"):
            continue
        sigs = e.get("signatures") or [e.get("signature")]
        try:
            with open(os.path.join(VERIF, e["replay"]), "r", encoding="utf-8") as fh:
                doc = json.load(fh)
        except OSError:
            print("note: stored program of known finding %s is missing (%s)" % (sigs[0], e["replay"]))
            continue
        out = safe_execute(mod, doc["program"])
        hit = [sg for sg in sigs if _same(out, sg)]
        if hit:
            print("KNOWN-FINDING: property=%s %s [%s]" % (pid, e.get("what_fails", ""), hit[0]))
            known_reproduced.extend(hit)
            printed_entries.add(id(e))
        else:
            print("note: known finding %s no longer reproduces from its stored program" % (sigs[0],))

    # 2. explore
    chunk = max(1, min(50, n // (jobs * 4) or 1))
    chunks = [list(range(i, min(n, i + chunk))) for i in range(0, n, chunk)]
    results: List[Dict[str, Any]] = []
    ctx = mp.get_context("fork")
    hard_timeout = float(os.environ.get("VERIF_HARD_TIMEOUT_S", "3000"))
    try:
        with cf.ProcessPoolExecutor(max_workers=jobs, mp_context=ctx) as ex:
            futs = [ex.submit(_worker_chunk, (pid, base_seed, tier, c)) for c in chunks]
            for f in cf.as_completed(futs, timeout=hard_timeout):
                results.extend(f.result())
    except Exception as e:  # worker death / timeout
        harness_errors.append("pool: %s: %s" % (type(e).__name__, e))
    results.sort(key=lambda r: r["i"])
    slow = sorted((r for r in results if float(r.get("wall") or 0.0) > 30.0), key=lambda r: -float(r["wall"]))[:3]
    for r in slow:
        print("note: slow run i=%d seed=%d took %.0f s (a run is abandoned after VERIF_RUN_TIMEOUT_S=%s)" % (
            r["i"], r["seed"], float(r["wall"]), os.environ.get("VERIF_RUN_TIMEOUT_S", "120")))
    if len(results) != n and not harness_errors:
        harness_errors.append("only %d of %d runs returned" % (len(results), n))

    stats: Dict[str, int] = {}
    faults: Dict[str, int] = {}
    keys, scheds, logs = set(), set(), set()
    sim_s = 0.0
    samples = []
    viol_by_sig: Dict[str, List[Dict[str, Any]]] = {}
    for r in results:
        if "harness_error" in r:
            harness_errors.append("run %s seed %s: %s" % (r["i"], r["seed"], r["harness_error"]))
            if "violations" not in r:
                continue
        _add(stats, r["stats"])
        _add(faults, r["faults"])
        if r["nontrivial"]:
            keys.update(r.get("keys") or [r["key"]])
        if r["sched"]:
            scheds.add(r["sched"])
        logs.add(r["log"])
        sim_s += float(r["sim_s"] or 0.0)
        if "program" in r and len(samples) < 3:
            samples.append(_truncate(r["program"]))
        for v in r["violations"]:
            viol_by_sig.setdefault(v["sig"], []).append(r)

    # 3. triage violations
    new_violations = []
    known_hits: Dict[str, int] = {}
    max_report = int(os.environ.get("VERIF_MAX_REPORT", "4"))
    for sig, rs in sorted(viol_by_sig.items(), key=lambda kv: (-len(kv[1]), kv[0])):
        if sig in open_sigs:
            known_hits[sig] = len(rs)
            continue
        if len(new_violations) >= max_report:
            if len(new_violations) < max_report + 6:
                print("violation (not minimised, report cap reached): signature=%s runs=%d" % (sig, len(rs)))
            elif len(new_violations) == max_report + 6:
                print("violation (not minimised, report cap reached): ... further signatures are listed in the evidence file only")
            new_violations.append({"sig": sig, "cls": rs[0]["violations"][0]["cls"], "replay": None, "runs": len(rs)})
            exit_code = EXIT_VIOLATION
            continue
        r0 = rs[0]
        v0 = [v for v in r0["violations"] if v["sig"] == sig][0]
        prog = v0.pop("program", None) or r0["program"]
        try:
            small, tries = minimise(mod, prog, sig, budget_s=float(os.environ.get("VERIF_SHRINK_S", "45")))
        except Exception as e:
            small, tries = prog, 0
            harness_errors.append("minimise: %r" % (e,))
        out = safe_execute(mod, small)
        vv = [v for v in out["violations"] if v["sig"] == sig]
        v_final = dict(vv[0] if vv else v0)
        v_final.pop("program", None)
        if not vv:
            small = prog
        path = write_replay(mod, small, v_final, r0["seed"], {"shrink_tries": tries, "runs_hit": len(rs),
                                                              "original_ops": len(prog.get("ops", []) or [])})
        # a replay file must reproduce in a fresh interpreter
        rc = subprocess.run([sys.executable, "-m", "vsim.cli", pid, "--replay", path], cwd=VERIF,
                            capture_output=True, text=True, env=dict(os.environ, PYTHONHASHSEED="0"), timeout=300)
        fresh_ok = rc.returncode == EXIT_VIOLATION
        print("violation: class=%s signature=%s runs=%d detail=%s%s" % (
            v_final["cls"], sig, len(rs), str(v_final["detail"])[:600],
            "" if fresh_ok else "  [WARNING: did not reproduce in a fresh interpreter]"))
        print("VIOLATION property=%s replay=%s" % (pid, path))
        new_violations.append({"sig": sig, "cls": v_final["cls"], "replay": path, "runs": len(rs), "fresh_replay_ok": fresh_ok})
        exit_code = EXIT_VIOLATION
    for sig, cnt in sorted(known_hits.items()):
        if sig not in known_reproduced:
            if id(open_sigs[sig]) not in printed_entries:
                print("KNOWN-FINDING: property=%s %s [%s]" % (pid, open_sigs[sig].get("what_fails", ""), sig))
                printed_entries.add(id(open_sigs[sig]))
            known_reproduced.append(sig)

    wall = time.time() - t_start
    if harness_errors:
        for h in harness_errors[:5]:
            print("HARNESS-ERROR: " + h)
        if exit_code == EXIT_OK:
            exit_code = EXIT_HARNESS

    # 4. evidence
    evaluations = len(results)
    cov = {
        "evaluations": int(stats.get("evaluations", evaluations)),
        "runs": evaluations,
        "distinct_nontrivial": len(keys),
        "rule": mod.RULE,
        "samples": samples or [{"note": "no sample recorded"}],
        "exhaustive": bool(getattr(mod, "EXHAUSTIVE", False)),
        "runs_per_hour": int(evaluations / max(wall, 1e-6) * 3600),
        "simulated_seconds": round(sim_s, 3),
        "faults_fired": dict(sorted(faults.items())),
        "probes": dict(sorted(stats.items())),
        "distinct_schedules": len(scheds),
        "distinct_event_logs": len(logs),
        "real_components": list(getattr(mod, "REAL", [])),
        "stubbed_components": list(getattr(mod, "STUBS", [])),
        "known_findings_reproduced": known_reproduced,
        "known_finding_hits": known_hits,
        "new_violations": new_violations,
        "harness_errors": len(harness_errors),
        "jobs": jobs,
        "seeds": "H(VERIF_SEED=%d, %s, i) for i in 0..%d" % (base_seed, pid, n - 1),
    }
    ev = {
        "property_id": pid,
        "tier": tier,
        "seed": base_seed,
        "level": mod.LEVEL,
        "coverage": cov,
        "assumptions": list(getattr(mod, "ASSUMPTIONS", [])),
        "wall_s": round(wall, 3),
        "violations": len(new_violations),
    }
    os.makedirs(os.path.join(VERIF, "evidence"), exist_ok=True)
    with open(os.path.join(VERIF, "evidence", "%s.json" % pid), "w", encoding="utf-8") as fh:
        json.dump(ev, fh, indent=1, sort_keys=True, default=repr)
        fh.write("\n")
    print("vsim: %s %s: %d runs, %d distinct non-trivial, %d new violation signature(s), %d known, %.1fs, exit %d" % (
        pid, tier, evaluations, len(keys), len(new_violations), len(known_reproduced), wall, exit_code))
    return exit_code


def main(argv: Optional[List[str]] = None) -> int:
    ap = argparse.ArgumentParser(prog="check")
    ap.add_argument("property")
    ap.add_argument("--tier", default=os.environ.get("VERIF_TIER", "quick"), choices=["quick", "thorough"])
    ap.add_argument("--replay")
    ap.add_argument("--seed", type=int, default=int(os.environ.get("VERIF_SEED", "0") or 0))
    ap.add_argument("--runs", type=int)
    ap.add_argument("--jobs", type=int, default=int(os.environ.get("VERIF_JOBS", str(os.cpu_count() or 4))))
    a = ap.parse_args(argv)
    pid = a.property.upper()
    if a.replay:
        return run_replay(load_check(pid), a.replay)
    return run_check(pid, a.tier, a.seed, a.runs, a.jobs)
