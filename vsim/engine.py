"""Whole-engine harness: worlds, validated configs, seams, turns, digests (DESIGN 2.7).

Everything a run needs is plain JSON data:
  world  = {"graphs": {gid: {"nodes": [...], "edges": [...]}}, "episodes": [...],
            "agents": {agent: [gid...]}, "gel": {...}|None}
  cfg    = raw (un-normalised) config dict, passed through the REAL validate_config
  ops    = list of {"op": ...} records (see apply_op)
"""
from __future__ import annotations

import copy
import hashlib
import json
import os
import sys
import types
from typing import Any, Callable, Dict, Iterable, List, Optional, Tuple

from . import use_repo

use_repo()

import numpy as np  # noqa: E402

from .clock import DatetimeModuleShim, SimClock, SimTime  # noqa: E402
from .rng import Rng, Stream  # noqa: E402

import clematis.engine.orchestrator as orch  # noqa: E402
import clematis.engine.orchestrator.core as core  # noqa: E402
import clematis.engine.orchestrator.parallel as oparallel  # noqa: E402
import clematis.engine.apply as eapply  # noqa: E402
import clematis.engine.snapshot as esnapshot  # noqa: E402
import clematis.engine.cache as ecache  # noqa: E402
import clematis.engine.stages.t1 as t1mod  # noqa: E402
import clematis.engine.stages.t2.core as t2core  # noqa: E402
import clematis.engine.stages.t2.cache as t2cache  # noqa: E402
import clematis.engine.stages.t2.helpers as t2helpers  # noqa: E402
import clematis.engine.stages.t3.bundle as t3bundle  # noqa: E402
import clematis.memory.index as memindex  # noqa: E402
import clematis.io.atomic as ioatomic  # noqa: E402
from clematis.adapters.embeddings import DeterministicEmbeddingAdapter  # noqa: E402
from clematis.engine.types import Edge, Node  # noqa: E402
from clematis.graph.store import InMemoryGraphStore  # noqa: E402
from clematis.memory.index import InMemoryIndex  # noqa: E402
from configs.validate import validate_config  # noqa: E402
from clematis.errors import ConfigError  # noqa: E402

VOCAB = ["apple", "river", "stone", "cloud", "ember", "quartz", "meadow", "lantern", "harbor", "thistle", "copper", "violet"]
AGENTS = ["Ambrose", "Bea", "Cyrus", "Dara"]
RELS = ["supports", "associates", "contradicts", "mentions"]
T0_MS = 1_700_000_000_000  # logical epoch of all runs (2023-11-14T22:13:20Z)


class AttrDict(dict):
    def __getattr__(self, name):
        try:
            return self[name]
        except KeyError as e:
            raise AttributeError(name) from e

    def __setattr__(self, name, value):
        self[name] = value

    def __delattr__(self, name):
        try:
            del self[name]
        except KeyError as e:
            raise AttributeError(name) from e

    def __deepcopy__(self, memo):
        return AttrDict({k: copy.deepcopy(v, memo) for k, v in self.items()})


def to_attr(obj: Any) -> Any:
    if isinstance(obj, dict):
        return AttrDict({k: to_attr(v) for k, v in obj.items()})
    if isinstance(obj, list):
        return [to_attr(v) for v in obj]
    return obj


def make_cfg(raw: Dict[str, Any]) -> AttrDict:
    """REAL validator, then attribute-dict form as run_smoke_turn builds it."""
    return to_attr(validate_config(copy.deepcopy(raw)))


def iso_from_ms(ms: int) -> str:
    return core._iso_from_ms(int(ms))


# ---------------------------------------------------------------------------
# world
# ---------------------------------------------------------------------------

_EMB = DeterministicEmbeddingAdapter(dim=32)
_WORLD_DIM = [32]


def set_world_dim(dim: int) -> int:
    """The memory contents of a world are embedded at the configured surface dimension (k_surface); default 32."""
    global _EMB
    prev = _WORLD_DIM[0]
    _WORLD_DIM[0] = int(dim)
    _EMB = DeterministicEmbeddingAdapter(dim=int(dim))
    return prev


def episode_vec(spec: Any, text: str, by_id: Optional[Dict[str, Any]] = None):
    if spec == "zero":
        return np.zeros((_WORLD_DIM[0],), dtype=np.float32)
    if spec == "nan":
        # a damaged stored vector: one component is not a number
        v = np.array(_EMB.encode([text])[0], dtype=np.float32, copy=True)
        v[0] = np.float32("nan")
        return v
    if isinstance(spec, str) and spec.startswith("text:"):
        return _EMB.encode([spec[5:]])[0]
    if isinstance(spec, str) and spec.startswith("near:"):
        # another text's vector, rescaled in float32: the cosine with any query equals that text's up to the last few ulps
        _, factor, txt = spec.split(":", 2)
        return (np.asarray(_EMB.encode([txt])[0], dtype=np.float32) * np.float32(float(factor))).astype(np.float32)
    if isinstance(spec, str) and spec.startswith("ulp:"):
        # another text's vector with ONE component moved by a few float32 ulps: cosines that differ far below 1e-9
        _, k, txt = spec.split(":", 2)
        v = np.array(_EMB.encode([txt])[0], dtype=np.float32, copy=True)
        i = abs(int(k)) % len(v)
        for _ in range(1 + abs(int(k)) % 3):
            v[i] = np.nextafter(v[i], np.float32(np.inf if int(k) >= 0 else -np.inf), dtype=np.float32)
        return v
    if spec is None or spec == "none":
        return None
    return _EMB.encode([text])[0]


def gen_world(r: Stream, *, n_agents: Optional[int] = None, max_graphs: int = 3, max_nodes: int = 8,
              max_edges: int = 16, max_eps: int = 12, disjoint: Optional[bool] = None,
              odd_ids: bool = True, bad_ts: bool = False, with_gel: bool = False, naive_ts: bool = False) -> Dict[str, Any]:
    n_agents = n_agents or r.randint(1, 3)
    agents = AGENTS[:n_agents]
    n_graphs = r.randint(1, max_graphs)
    graphs: Dict[str, Any] = {}
    all_labels: List[str] = []
    for gi in range(n_graphs):
        gid = "g:%d" % gi if gi or r.chance(0.5) else "g:surface"
        nn = r.randint(1, max_nodes)
        nodes = []
        for ni in range(nn):
            style = r.below(10) if odd_ids else 0
            nid = "n%d_%d" % (gi, ni)
            if style == 9:
                nid = "n.%d.%d" % (gi, ni)
            elif style == 8:
                nid = "ñ%d→%d" % (gi, ni)
            label = r.choice(VOCAB) if r.chance(0.85) else ""
            if label and r.chance(0.15):
                label = label.capitalize()
            tags = r.sample(VOCAB, r.randint(0, 2)) if r.chance(0.3) else []
            nodes.append({"id": nid, "label": label, "tags": tags})
            if label:
                all_labels.append(label)
        edges = []
        ne = r.randint(0, min(max_edges, nn * 3))
        for ei in range(ne):
            a = r.choice(nodes)["id"]
            b = r.choice(nodes)["id"]  # self-loops, parallel edges and cycles allowed
            w = r.choice([1.0, 0.8, 0.5, 0.3, 0.0, -0.5, -1.0, r.uniform(-1, 1)])
            edges.append({"id": "e%d_%d" % (gi, ei), "src": a, "dst": b, "weight": round(w, 4), "rel": r.choice(RELS)})
        graphs[gid] = {"nodes": nodes, "edges": edges}
    gids = sorted(graphs)
    if disjoint is None:
        disjoint = r.chance(0.5)
    agent_graphs: Dict[str, List[str]] = {}
    for i, a in enumerate(agents):
        if disjoint and len(gids) >= len(agents):
            agent_graphs[a] = [g for j, g in enumerate(gids) if j % len(agents) == i]
        else:
            k = r.randint(1, len(gids))
            agent_graphs[a] = sorted(r.sample(gids, k))
    owners = agents + ["world"]
    eps = []
    for ei in range(r.randint(0, max_eps)):
        words = r.sample(VOCAB, r.randint(1, 4))
        text = " ".join(words)
        if r.chance(0.25):
            # spelling variants of the same words (case, hyphens, punctuation): what text normalisation / aliasing act on
            text = r.choice([text.title(), text.upper(), text.replace(" ", "-") + ",", "/".join(words) + "!", text + "s"])
        # ages on and just inside the edges of the recency windows the configs use (1, 30, 365 days), so that a few
        # hours of logical time move an episode across a window edge
        age_days = r.choice([0, 0, 1, 5, 29, 30, 31, 90, 400, 0.6, 0.95, 29.6, 29.95, 364.7])
        ts_ms = T0_MS - int(age_days * 86_400_000) - r.randint(0, 3_600_000)
        ts: Any = iso_from_ms(ts_ms).replace("+00:00", "Z")
        if naive_ts and r.chance(0.3):
            ts = ts[:-1]  # no UTC offset, as datetime.utcnow().isoformat() writes it
        if bad_ts and r.chance(0.2):
            ts = r.choice(["", "garbled", None])
        ep: Dict[str, Any] = {"id": "ep%02d" % ei, "owner": r.choice(owners), "text": text, "ts": ts,
                              "vec": r.weighted([("text", 10), ("zero", 1), ("text:" + " ".join(r.sample(VOCAB, 2)), 3)] +
                                                ([("near:%s:%s" % (r.choice(["1.094", "0.37", "3.0", "1.0000001"]), r.choice(eps)["text"]), 2),
                                                  ("ulp:%d:%s" % (r.randint(-40, 40), r.choice(eps)["text"]), 3)] if eps else []))}
        if r.chance(0.5):
            ep["cluster"] = "c%d" % r.randint(0, 3)
        if r.chance(0.5):
            ep["importance"] = r.choice([0.0, 0.5, 1.0, round(r.random(), 3)])
        eps.append(ep)
    world: Dict[str, Any] = {"graphs": graphs, "agents": agent_graphs, "episodes": eps}
    if with_gel:
        gn = ["ep%02d" % i for i in range(r.randint(2, 6))]
        ge = {}
        for _ in range(r.randint(1, 6)):
            a, b = r.sample(gn, 2)
            s, d = (a, b) if a <= b else (b, a)
            ge["%s→%s" % (s, d)] = {"id": "%s→%s" % (s, d), "src": s, "dst": d, "weight": round(r.uniform(0.05, 0.9), 3),
                                    "rel": "coact", "updated_at": iso_from_ms(T0_MS), "attrs": {}}
        world["gel"] = {"nodes": {n: {"id": n} for n in gn}, "edges": ge, "meta": {"schema": "v1.1", "merges": [], "splits": [],
                                                                                   "promotions": [], "concept_nodes_count": 0,
                                                                                   "edges_count": len(ge)}}
    return world


def gen_text(r: Stream, world: Optional[Dict[str, Any]] = None) -> str:
    words = r.sample(VOCAB, r.randint(1, 3))
    filler = r.choice(["", "tell me about", "what of the", "and", "I saw a"])
    t = (filler + " " + " ".join(words)).strip()
    return t


def make_episode(ep: Dict[str, Any]) -> Dict[str, Any]:
    out: Dict[str, Any] = {"id": ep["id"], "owner": ep.get("owner"), "text": ep.get("text", "")}
    if "ts" in ep and ep["ts"] is not None:
        out["ts"] = ep["ts"]
    v = episode_vec(ep.get("vec", "text"), ep.get("text", ""))
    if v is not None:
        out["vec_full"] = v
    aux = {}
    if "cluster" in ep:
        aux["cluster_id"] = ep["cluster"]
    if "importance" in ep:
        aux["importance"] = ep["importance"]
    if aux:
        out["aux"] = aux
    return out


class TickClock:
    """A caller's clock that moves a second per reading (so that anything read more than once per turn shows)."""

    def __init__(self, start):
        self.t = int(start) - 1000

    def __call__(self):
        self.t += 1000
        return self.t


def hand_over_clock(ctx: Any, start_ms: int) -> None:
    """A scheduler-style driver hands its CLOCK over: ctx.now_ms is callable, ctx.now unset."""
    ctx.now_ms = TickClock(start_ms)
    ctx.now = None


def build_state(world: Dict[str, Any], *, store: Any = None) -> Dict[str, Any]:
    st = store if store is not None else InMemoryGraphStore()
    for gid, g in world["graphs"].items():
        st.ensure(gid) if hasattr(st, "ensure") else None
        st.upsert_nodes(gid, [Node(id=n["id"], label=n.get("label", ""), attrs=({"tags": list(n["tags"])} if n.get("tags") else {}))
                              for n in g["nodes"]])
        if g["edges"]:
            st.upsert_edges(gid, [Edge(id=e["id"], src=e["src"], dst=e["dst"], weight=float(e["weight"]), rel=e["rel"])
                                  for e in g["edges"]])
    idx = InMemoryIndex()
    for ep in world.get("episodes", []):
        idx.add(make_episode(ep))
    state: Dict[str, Any] = {"store": st, "active_graphs": [], "mem_index": idx, "memory_index": idx,
                             "mem_backend": "inmemory", "version_etag": "0"}
    if world.get("gel") is not None:
        state["graph"] = copy.deepcopy(world["gel"])
        # a state that already carries a GEL graph has been booted: the boot hook of the first turn would otherwise
        # re-initialise state.graph (load_latest_snapshot resets the containers before looking for a file)
        state["_boot_loaded"] = True
    return state


def make_ctx(cfg: AttrDict, agent: str, turn_id: Any, now_ms: Optional[int], *, with_now: bool = True, style: str = "both", now_ms_float: bool = False) -> types.SimpleNamespace:
    """style "both": ctx.cfg and ctx.config (what most tests build); "cfg_only": the shape of the engine's own TurnCtx dataclass and of
    run_smoke_turn - a `cfg` attribute and no `config`."""
    ctx = types.SimpleNamespace(turn_id=turn_id, agent_id=agent, cfg=cfg)
    if style != "cfg_only":
        ctx.config = cfg
    if now_ms is not None:
        ctx.now_ms = float(now_ms) if now_ms_float else int(now_ms)   # callers compute it as time * 1000 often enough
        ctx.now = iso_from_ms(now_ms) if with_now else None
    else:
        ctx.now = None
        ctx.now_ms = None
    return ctx


# ---------------------------------------------------------------------------
# process-global engine state
# ---------------------------------------------------------------------------

def reset_globals() -> None:
    t1mod._T1_CACHE = None
    t1mod._T1_CACHE_CFG = None
    t1mod._T1_CACHE_KIND = None
    t2cache._T2_CACHE = None
    t2cache._T2_CACHE_CFG = None
    t2cache._T2_CACHE_KIND = None
    core._sched_next_turn = None
    core._sched_on_yield = None
    try:
        from clematis.engine.util import io_logging as IOL
        IOL.STAGING_ENABLED.set(False)
        IOL.STAGING_STATE.set(None)
        from clematis.engine.util import logmux
        logmux.LOG_MUX.set(None)
    except Exception:
        pass
    for name in ("t3_deliberate", "t3_dialogue"):
        for m in (orch, core):
            if name in vars(m):
                try:
                    delattr(m, name)
                except Exception:
                    pass


# ---------------------------------------------------------------------------
# environment (seams)
# ---------------------------------------------------------------------------

_TIME_MODULES = [core, eapply, esnapshot, ioatomic, oparallel]
_DT_MODULES = [memindex, t2core, t2helpers]


class SimLRUCache(ecache.LRUCache):
    """LRUCache whose default clock is the simulated one (engine binds time.time at def time)."""
    _clock: Optional[SimClock] = None

    def __init__(self, max_entries: int = 512, ttl_s: int = 300, time_fn: Any = None):
        super().__init__(max_entries=max_entries, ttl_s=ttl_s, time_fn=(time_fn or (lambda: SimLRUCache._clock.time())))


class SimCacheManager(ecache.CacheManager):
    _clock: Optional[SimClock] = None

    def __init__(self, *a, **kw):
        kw.setdefault("time_fn", (lambda: SimCacheManager._clock.time()))
        super().__init__(*a, **kw)


class EngineEnv:
    """Installs the clock / datetime / env seams for one run and restores them afterwards."""

    def __init__(self, root: str, clock: SimClock, *, ci: bool = True, patch_caches: bool = True, keep_process_state: bool = False):
        self.root = root
        self.clock = clock
        self.ci = ci
        self.patch_caches = patch_caches
        # True: the engine's process-global caches survive entering this environment (a warm process that ran other work)
        self.keep_process_state = keep_process_state
        self.logs = os.path.join(root, "logs")
        self.snap = os.path.join(root, "snap")
        self._saved: List[Tuple[Any, str, Any]] = []
        self._env: Dict[str, Optional[str]] = {}
        self._cwd = None

    def _set(self, mod: Any, name: str, val: Any) -> None:
        self._saved.append((mod, name, getattr(mod, name, None)))
        setattr(mod, name, val)

    def __enter__(self) -> "EngineEnv":
        os.makedirs(self.logs, exist_ok=True)
        os.makedirs(self.snap, exist_ok=True)
        st = SimTime(self.clock)
        shim = DatetimeModuleShim(self.clock)
        # 1. every module-level binding of time / datetime inside the code under test (also ones a change may have added)
        import datetime as _rdt
        import time as _rt
        for name, mod in list(sys.modules.items()):
            if mod is None or not (name == "clematis" or name.startswith("clematis.") or name == "configs" or name.startswith("configs.")):
                continue
            for attr, val in list(vars(mod).items()):
                if val is _rt:
                    self._set(mod, attr, st)
                elif val is _rdt:
                    self._set(mod, attr, shim)
                elif val is _rdt.datetime:
                    self._set(mod, attr, shim.datetime)
        # 2. the time module itself, for function-local `import time` and third parties called by the engine
        for attr, fn in (("time", self.clock.time), ("time_ns", self.clock.time_ns), ("perf_counter", self.clock.perf_counter),
                         ("monotonic", self.clock.monotonic), ("sleep", self.clock.sleep), ("perf_counter_ns", st.perf_counter_ns),
                         ("monotonic_ns", st.monotonic_ns)):
            self._set(_rt, attr, fn)
        if self.patch_caches:
            SimLRUCache._clock = self.clock
            SimCacheManager._clock = self.clock
            self._set(ecache, "LRUCache", SimLRUCache)
            self._set(t1mod, "LRUCache", SimLRUCache)
            self._set(core, "CacheManager", SimCacheManager)
        for k, v in (("CLEMATIS_LOG_DIR", self.logs), ("CLEMATIS_SNAPSHOT_DIR", self.snap), ("CI", "true" if self.ci else ""),
                     ("CLEMATIS_LOGS_DIR", None), ("CLEMATIS_SNAPSHOTS_DIR", None), ("CLEMATIS_T3_DENY", None),
                     ("CLEMATIS_T3_ALLOW", None), ("SOURCE_DATE_EPOCH", None), ("CLEMATIS_USE_REAL_BGE", None)):
            self._env[k] = os.environ.get(k)
            if v is None:
                os.environ.pop(k, None)
            else:
                os.environ[k] = v
        self._cwd = os.getcwd()
        os.chdir(self.root)
        if not self.keep_process_state:
            reset_globals()
        return self

    def __exit__(self, *a) -> bool:
        for mod, name, val in reversed(self._saved):
            setattr(mod, name, val)
        self._saved = []
        for k, v in self._env.items():
            if v is None:
                os.environ.pop(k, None)
            else:
                os.environ[k] = v
        try:
            os.chdir(self._cwd or "/")
        except Exception:
            os.chdir("/")
        if not getattr(self, "leave_process_state", False):
            reset_globals()
        return False


# ---------------------------------------------------------------------------
# observation helpers
# ---------------------------------------------------------------------------

CANON_STREAMS = ("t1.jsonl", "t2.jsonl", "t4.jsonl", "apply.jsonl", "turn.jsonl", "health.jsonl")


def read_dir(path: str) -> Dict[str, bytes]:
    out: Dict[str, bytes] = {}
    if not os.path.isdir(path):
        return out
    for cur, _d, files in os.walk(path):
        for n in sorted(files):
            p = os.path.join(cur, n)
            with open(p, "rb") as fh:
                out[os.path.relpath(p, path)] = fh.read()
    return out


def normalise_paths(data: bytes, root: str) -> bytes:
    return data.replace(root.encode("utf-8"), b"<ROOT>")


def graph_digest(store: Any) -> Any:
    out = {}
    for gid in sorted(getattr(store, "_graphs", {})):
        g = store._graphs[gid]
        out[gid] = {
            "nodes": {nid: [n.label, sorted((n.attrs or {}).get("tags", []))] for nid, n in sorted(g.nodes.items())},
            "edges": {eid: [e.src, e.dst, float(e.weight), e.rel] for eid, e in sorted(g.edges.items())},
            "etag": g.version_etag,
        }
    return out


def index_digest(idx: Any) -> Any:
    eps = []
    for e in getattr(idx, "_eps", []):
        d = {k: v for k, v in e.items() if k != "vec_full"}
        v = e.get("vec_full")
        d["vec"] = None if v is None else hashlib.blake2b(np.asarray(v, dtype=np.float32).tobytes(), digest_size=6).hexdigest()
        eps.append(d)
    return {"ver": getattr(idx, "_ver", None), "eps": eps}


def state_digest(state: Dict[str, Any]) -> Any:
    return {
        "version": state.get("version_etag"),
        "store": graph_digest(state.get("store")),
        "index": index_digest(state.get("mem_index")),
        "gel": state.get("graph"),
        "active_graphs": list(state.get("active_graphs", [])),
    }


def jdigest(obj: Any) -> str:
    return hashlib.blake2b(json.dumps(obj, sort_keys=True, default=repr, ensure_ascii=False).encode("utf-8"), digest_size=8).hexdigest()


def t1_view(t1: Any) -> Any:
    m = dict(getattr(t1, "metrics", {}) or {})
    for k in ("cache_hits", "cache_misses", "cache_used", "cache_enabled", "max_delta", "t1.cache_evictions", "t1.cache_bytes"):
        m.pop(k, None)
    return {"deltas": list(getattr(t1, "graph_deltas", []) or []), "metrics": m}


def t2_view(t2: Any) -> Any:
    m = getattr(t2, "metrics", {}) or {}
    return {
        "retrieved": [[str(getattr(r, "id", None)), round(float(getattr(r, "score", 0.0)), 6)] for r in getattr(t2, "retrieved", []) or []],
        "residual": list(getattr(t2, "graph_deltas_residual", []) or []),
        "k_used": m.get("k_used"), "k_returned": m.get("k_returned"), "tier_sequence": m.get("tier_sequence"),
        # every other metric the stage reports, except the cache diagnostics (hit / miss / size / eviction counters)
        "metrics": {str(k): m[k] for k in sorted(m, key=str) if "cache" not in str(k) and str(k) not in ("k_used", "k_returned", "tier_sequence")},
    }


# ---------------------------------------------------------------------------
# configuration swarm
# ---------------------------------------------------------------------------

def _set_path(d: Dict[str, Any], path: List[str], val: Any) -> None:
    cur = d
    for k in path[:-1]:
        nxt = cur.get(k)
        if not isinstance(nxt, dict):
            nxt = cur[k] = {}
        cur = nxt
    cur[path[-1]] = val


def _del_path(d: Dict[str, Any], path: List[str]) -> None:
    cur = d
    for k in path[:-1]:
        cur = cur.get(k)
        if not isinstance(cur, dict):
            return
    cur.pop(path[-1], None)


KNOBS: Dict[str, List[Tuple[str, List[Any]]]] = {
    "t1": [
        ("t1.iter_cap", [0, 1, 2, 50]), ("t1.queue_budget", [0, 1, 3, 10000]), ("t1.node_budget", [0.5, 1.5, 10.0]),
        ("t1.radius_cap", [0, 1, 2, 4]), ("t1.decay", [{"mode": "exp_floor", "rate": 0.6, "floor": 0.05}, {"mode": "attn_quad", "alpha": 0.8},
                                                       {"mode": "exp_floor", "rate": 0.9, "floor": 0.0}]),
        ("t1.edge_type_mult", [{"supports": 1.0, "associates": 0.6, "contradicts": 0.8}, {"supports": 0.5, "mentions": 1.0}]),
    ],
    "t1cache": [("t1.cache.max_entries", [0, 1, 2, 512]), ("t1.cache.ttl_s", [0, 1, 300])],
    "t2": [
        ("t2.k_retrieval", [1, 2, 3, 10]), ("t2.sim_threshold", [-1.0, -0.2, 0.0, 0.1, 0.3]),
        ("t2.ranking", [{"alpha_sim": 1.0, "beta_recency": 0.0, "gamma_importance": 0.0}, {"alpha_sim": 0.5, "beta_recency": 0.4, "gamma_importance": 0.1},
                        {"alpha_sim": 0.0, "beta_recency": 1.0, "gamma_importance": 0.0}, {"alpha_sim": 0.2, "beta_recency": 0.0, "gamma_importance": 1.0}]),
        ("t2.tiers", [["exact_semantic"], ["cluster_semantic"], ["archive"], ["exact_semantic", "cluster_semantic", "archive"], ["archive", "exact_semantic"]]),
        ("t2.exact_recent_days", [0, 1, 30, 365]), ("t2.clusters_top_m", [1, 2, 3]),
        ("t2.owner_scope", ["any", "agent", "world"]), ("t2.residual_cap_per_turn", [0, 1, 32]),
    ],
    "t2cache": [("t2.cache.max_entries", [0, 1, 2, 512]), ("t2.cache.ttl_s", [0, 1, 300])],
    "t3": [
        ("t3.max_rag_loops", [0, 1]), ("t3.max_ops_per_turn", [1, 2, 3, 8]), ("t3.tokens", [1, 5, 256]),
        ("t3.policy", [{"tau_high": 0.8, "tau_low": 0.4}, {"tau_high": 1.0, "tau_low": 1.0}, {"tau_high": 0.0, "tau_low": 0.0}, {"tau_high": 0.6, "tau_low": 0.6, "epsilon_edit": 0.1}]),
        ("t3.dialogue", [{"include_top_k_snippets": 0}, {"include_top_k_snippets": 3}, {"template": "{style_prefix}| {labels} :: {intent} {snippets}"}]),
    ],
    "t4": [
        ("t4.delta_norm_cap_l2", [0.1, 1.5]), ("t4.novelty_cap_per_node", [0.05, 0.3, 1.0]), ("t4.churn_cap_edges", [0, 1, 64]),
        ("t4.snapshot_every_n_turns", [1, 2, 3]), ("t4.cache_bust_mode", ["none", "on-apply"]),
    ],
    "t4cache": [("t4.cache.enabled", [True, False]), ("t4.cache.max_entries", [0, 1, 2, 512]), ("t4.cache.ttl_sec", [0, 1, 600])],
    "kill": [("t4.enabled", [True, False])],
    "perfcache": [
        ("perf.enabled", [True]), ("perf.t1.cache", [{"max_entries": 1, "max_bytes": 0}, {"max_entries": 0, "max_bytes": 200}, {"max_entries": 8, "max_bytes": 100000}]),
        ("perf.t2.cache", [{"max_entries": 1, "max_bytes": 0}, {"max_entries": 0, "max_bytes": 600}, {"max_entries": 8, "max_bytes": 100000}]),
        ("perf.metrics.report_memory", [True, False]),
    ],
    "perfcaps": [
        ("perf.enabled", [True]), ("perf.t1.caps", [{"frontier": 1}, {"visited": 1}, {"frontier": 2, "visited": 2}]),
        ("perf.t1.dedupe_window", [1, 2, 8]), ("perf.metrics.report_memory", [True, False]),
    ],
    "graph": [
        ("graph.enabled", [True]), ("graph.coactivation_threshold", [0.0, 0.2, 0.5]), ("graph.observe_top_k", [1, 2, 64]),
        ("graph.pair_cap_per_obs", [0, 1, 2048]),
        ("graph.update", [{"mode": "additive", "alpha": 0.02}, {"mode": "proportional", "alpha": 0.5}, {"mode": "additive", "alpha": 0.7, "clamp_min": -0.5, "clamp_max": 0.5}]),
        ("graph.decay", [{"half_life_turns": 1, "floor": 0.0}, {"half_life_turns": 2, "floor": 0.05}, {"half_life_turns": 200}]),
        ("graph.merge", [{"enabled": True, "min_size": 2, "min_avg_w": 0.0}, {"enabled": True}]),
        ("graph.split", [{"enabled": True, "weak_edge_thresh": 0.0}, {"enabled": True}]),
        ("graph.promotion", [{"enabled": True}, {"enabled": True, "label_mode": "concat_k", "topk_label_ids": 2}]),
    ],
    "hybrid": [
        ("t2.hybrid", [{"enabled": True}, {"enabled": True, "walk_hops": 2, "lambda_graph": 0.9, "edge_threshold": 0.0},
                       {"enabled": True, "degree_norm": "invdeg", "anchor_top_m": 1, "max_bonus": 0.0}]),
    ],
    "quality": [
        ("t2.quality", [{"enabled": True, "lexical": {"enabled": True}, "fusion": {"enabled": True, "alpha_semantic": 0.5}},
                        {"enabled": True, "mmr": {"enabled": True, "lambda": 0.3, "k": 2}},
                        {"enabled": True, "fusion": {"enabled": True, "alpha_semantic": 0.0}, "mmr": {"enabled": True, "lambda": 1.0}}]),
    ],
}


def gen_cfg(r: Stream, families: Iterable[str], p: float = 0.35, base: Optional[Dict[str, Any]] = None) -> Dict[str, Any]:
    """Random assignment inside the v1 key tree; the caller validates with the real validator."""
    raw: Dict[str, Any] = copy.deepcopy(base or {})
    for fam in families:
        for path, values in KNOBS[fam]:
            if r.chance(p):
                _set_path(raw, path.split("."), copy.deepcopy(r.choice(values)))
    return raw


def valid_cfg(r: Stream, families: Iterable[str], p: float = 0.35, base: Optional[Dict[str, Any]] = None,
              stats: Optional[Dict[str, int]] = None) -> Dict[str, Any]:
    for _ in range(20):
        raw = gen_cfg(r, families, p, base)
        try:
            validate_config(copy.deepcopy(raw))
            return raw
        except ConfigError:
            if stats is not None:
                stats["cfg_rejected"] = stats.get("cfg_rejected", 0) + 1
    return copy.deepcopy(base or {})


# ---------------------------------------------------------------------------
# operations
# ---------------------------------------------------------------------------

def gen_ops(r: Stream, world: Dict[str, Any], n: int, *, mutations: bool = True, p_mut: float = 0.3,
            turn_ids: str = "seq") -> List[Dict[str, Any]]:
    ops: List[Dict[str, Any]] = []
    agents = sorted(world["agents"])
    gids = sorted(world["graphs"])
    turn = 0
    now = T0_MS
    texts: List[str] = []
    neid = 0
    for _ in range(n):
        if mutations and ops and r.chance(p_mut):
            kind = r.choice(["reweight", "rewire", "relabel", "add_edge", "add_node", "add_episode"])
            gid = r.choice(gids)
            g = world["graphs"][gid]
            if kind in ("reweight", "rewire") and g["edges"]:
                e = dict(r.choice(g["edges"]))
                if kind == "reweight":
                    e["weight"] = r.choice([0.0, 1.0, -1.0, 0.5])
                else:
                    e["dst"] = r.choice(g["nodes"])["id"]
                ops.append({"op": "upsert_edge", "gid": gid, "edge": e})
            elif kind == "relabel":
                nd = dict(r.choice(g["nodes"]))
                nd["label"] = r.choice(VOCAB)
                ops.append({"op": "upsert_node", "gid": gid, "node": nd})
            elif kind == "add_edge":
                neid += 1
                ops.append({"op": "upsert_edge", "gid": gid, "edge": {"id": "x%d" % neid, "src": r.choice(g["nodes"])["id"],
                                                                      "dst": r.choice(g["nodes"])["id"], "weight": r.choice([1.0, 0.7]),
                                                                      "rel": r.choice(RELS)}})
            elif kind == "add_node":
                neid += 1
                ops.append({"op": "upsert_node", "gid": gid, "node": {"id": "xn%d" % neid, "label": r.choice(VOCAB), "tags": []}})
            else:
                neid += 1
                words = r.sample(VOCAB, r.randint(1, 3))
                ops.append({"op": "add_episode", "ep": {"id": "xe%d" % neid, "owner": r.choice(agents + ["world"]), "text": " ".join(words),
                                                        "ts": iso_from_ms(now - r.choice([0, 86_400_000, 40 * 86_400_000])).replace("+00:00", "Z"),
                                                        "vec": "text"}})
            continue
        text = r.choice(texts) if texts and r.chance(0.4) else gen_text(r)
        texts.append(text)
        now += r.choice([0, 1, 1000, 60_000, 86_400_000])
        ops.append({"op": "turn", "agent": r.choice(agents), "text": text, "turn_id": turn, "now_ms": now})
        turn += 1 if turn_ids == "seq" else r.choice([0, 1, 2])
    if r.chance(0.3):
        # contexts shaped like the engine's own TurnCtx / run_smoke_turn: the configuration in ctx.cfg only
        for o in ops:
            if o["op"] == "turn":
                o["ctx_style"] = "cfg_only"
    return ops


class EngineRun:
    """One engine instance (state + config) driven by ops inside an EngineEnv."""

    def __init__(self, world: Dict[str, Any], raw_cfg: Dict[str, Any], env: EngineEnv, *, store: Any = None,
                 turn_fn: Optional[Callable[..., Any]] = None):
        self.world = world
        self.raw_cfg = copy.deepcopy(raw_cfg)
        self.env = env
        self.state = build_state(world, store=store)
        self.cfg = self._mk_cfg()
        self.results: List[Any] = []
        self.turn_fn = turn_fn or (lambda ctx, state, text: orch.run_turn(ctx, state, text))
        self.last_ctx = None

    def _mk_cfg(self) -> AttrDict:
        raw = copy.deepcopy(self.raw_cfg)
        _set_path(raw, ["t4", "snapshot_dir"], self.env.snap)
        q = (raw.get("t2") or {}).get("quality")
        if isinstance(q, dict) and "trace_dir" not in q:
            q["trace_dir"] = os.path.join(self.env.root, "qtrace")
        cfg = make_cfg(raw)
        # settings a caller puts on its configuration object by hand, after (or without) validation
        for path, value in getattr(self, "hand_set", None) or []:
            cur = cfg
            for kk in path[:-1]:
                cur = cur[kk]
            cur[path[-1]] = copy.deepcopy(value)
        return cfg

    def step(self, op: Dict[str, Any]) -> Any:
        k = op["op"]
        st = self.state
        if k == "turn":
            agent = op["agent"]
            st["active_graphs"] = list(self.world["agents"].get(agent, sorted(self.world["graphs"])))
            ctx = make_ctx(self.cfg, agent, op.get("turn_id", 0), op.get("now_ms", T0_MS), with_now=op.get("with_now", True),
                           style=op.get("ctx_style", getattr(self, "ctx_style", "both")), now_ms_float=bool(op.get("now_ms_float")))
            prev = getattr(self, "last_ctx", None)
            if op.get("reuse_ctx") and prev is not None:
                # a driver that keeps one context object and refreshes its public fields each turn:
                # whatever the engine stashed on it last turn is still there
                # (everything the engine put there - private stashes, now_iso, slice_idx, slice_budgets ... - the driver
                # refreshes only what it sets itself: turn id, agent, configuration, clock)
                for pk, pv in list(vars(prev).items()):
                    if pk != "_dry_run_until_t4" and pk not in vars(ctx):
                        setattr(ctx, pk, pv)
            for extra_k, extra_v in (op.get("ctx") or {}).items():
                setattr(ctx, extra_k, extra_v)
            if op.get("now_ms_callable"):
                hand_over_clock(ctx, op.get("now_ms", T0_MS))
            if op.get("now_ms_const_fn"):
                # the logical clock handed over as a function that returns the turn's logical time (the scheduler's own clock
                # reader expects a callable), ctx.now unset
                _ms = int(op.get("now_ms", T0_MS))
                ctx.now_ms = (lambda _v=_ms: _v)
                ctx.now = None
            self.last_ctx = ctx
            res = self.turn_fn(ctx, st, op["text"])
            self.results.append(res)
            return res
        if k == "upsert_edge":
            e = op["edge"]
            st["store"].upsert_edges(op["gid"], [Edge(id=e["id"], src=e["src"], dst=e["dst"], weight=float(e["weight"]), rel=e["rel"])])
        elif k == "upsert_node":
            n = op["node"]
            st["store"].upsert_nodes(op["gid"], [Node(id=n["id"], label=n.get("label", ""), attrs=({"tags": list(n["tags"])} if n.get("tags") else {}))])
        elif k == "add_episode":
            st["mem_index"].add(make_episode(op["ep"]))
        elif k == "clear_memory":
            # the memory is emptied through the index's own API (a re-import, a reset between sessions); refills follow as add_episode
            st["mem_index"].clear()
        elif k == "set_cfg":
            if op.get("delete"):
                _del_path(self.raw_cfg, list(op["path"]))
            else:
                _set_path(self.raw_cfg, list(op["path"]), copy.deepcopy(op["value"]))
            self.cfg = self._mk_cfg()
        elif k == "advance_clock":
            self.env.clock.advance(int(op["ms"]) * 1_000_000)
        elif k == "restart":
            # process restart: in-memory state and process-global caches are gone, the snapshot directory is what survives; the
            # next turn boots from it.  `tie_mtimes`: the directory came back from a backup / checkout with coarse time stamps.
            if op.get("tie_mtimes"):
                for n in sorted(os.listdir(self.env.snap)):
                    try:
                        os.utime(os.path.join(self.env.snap, n), ns=(T0_MS * 1_000_000, T0_MS * 1_000_000))
                    except OSError:
                        pass
            reset_globals()
            self.state = build_state(self.world)
            # a restarted process boots from the snapshot directory, also when the harness had pre-loaded a GEL graph at the start
            if isinstance(self.state, dict):
                self.state.pop("_boot_loaded", None)
        else:
            raise ValueError("unknown op %r" % (k,))
        return None

    def artefacts(self) -> Dict[str, Any]:
        root = self.env.root
        logs = {n: normalise_paths(b, root).decode("utf-8", "replace") for n, b in read_dir(self.env.logs).items()}
        snaps = {n: normalise_paths(b, root).decode("utf-8", "replace") for n, b in read_dir(self.env.snap).items()}
        return {"lines": [getattr(r, "line", None) for r in self.results], "logs": logs, "snaps": snaps}
