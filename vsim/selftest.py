"""Determinism self-test of the simulator (DESIGN 2.9).

For sampled seeds of every check: execute the generated program twice in this interpreter and once in a fresh
interpreter under another PYTHONHASHSEED; the outcome digests (event-log digest, schedule digest, violation
signatures, distinctness keys) must agree.  A divergence is a HARNESS error, never a violation.
"""
from __future__ import annotations

import json
import sys
from typing import Any, Dict, List

from . import use_repo

use_repo()

from .child import Child  # noqa: E402
from .rng import H  # noqa: E402
from .runner import load_check, safe_execute  # noqa: E402

ALL = ["C01", "C02", "C04", "C05", "C06", "C07", "C08", "C09", "C10", "C11", "C13", "C14", "C15", "C16", "C17", "C18", "C19", "C20"]


def summary(out: Dict[str, Any]) -> Dict[str, Any]:
    return {"log": out.get("log"), "sched": out.get("sched"), "sigs": sorted(v["sig"] for v in out.get("violations", [])),
            "key": out.get("key"), "keys": (out.get("keys") or [])[:50], "stats": dict(sorted((out.get("stats") or {}).items())),
            "harness_error": out.get("harness_error", "")[-300:] if out.get("harness_error") else None}


def job(pid: str, seed: int) -> Dict[str, Any]:
    mod = load_check(pid)
    prog = mod.generate(seed, "quick")
    return summary(safe_execute(mod, prog))


def main(argv: List[str]) -> int:
    pids = [a.upper() for a in argv[1:] if not a.startswith("-")] or ALL
    n = 12
    for a in argv[1:]:
        if a.startswith("--n="):
            n = int(a[4:])
    bad = 0
    children = [Child("12345", max_jobs=10**6), Child("987", max_jobs=5)]
    for pid in pids:
        div = 0
        for i in range(n):
            seed = H(424242, pid, i)
            a = job(pid, seed)
            b = job(pid, seed)
            c = children[i % 2].call("vsim.selftest", "job", {"pid": pid, "seed": seed})
            c.pop("_fresh_interpreter", None)
            ja, jb, jc = (json.dumps(x, sort_keys=True, default=repr) for x in (a, b, c))
            if ja != jb or ja != jc:
                div += 1
                which = "same-process rerun" if ja != jb else "other interpreter / PYTHONHASHSEED"
                diff = [k for k in a if json.dumps(a[k], sort_keys=True, default=repr) != json.dumps((b if ja != jb else c).get(k), sort_keys=True, default=repr)]
                print("HARNESS-ERROR: %s seed %d diverges (%s) in %s" % (pid, seed, which, diff))
        print("selftest %s: %d seeds x (2 in-process + 1 fresh-interpreter) runs, %d divergence(s)" % (pid, n, div))
        bad += div
    for ch in children:
        ch.close()
    return 2 if bad else 0


if __name__ == "__main__":
    sys.exit(main(sys.argv))
