"""Simulated clock (DESIGN 2.2).

SimClock owns wall and monotonic time.  SimTime is a drop-in for the `time`
module as the engine uses it (time, time_ns, perf_counter, monotonic, sleep,
gmtime, strftime).  make_datetime_shim() gives a `datetime` module look-alike
whose datetime.now()/utcnow() read the simulated wall clock.

Each read advances the clock by an increment decided by the run's clock profile
and the `clock` PRNG stream, so "wall-clock speed" is an explicit, replayable
input of a run.
"""
from __future__ import annotations

import datetime as _real_dt
import time as _real_time
from typing import Any, Callable, Dict, List, Optional

from .rng import Stream

PROFILES = ("steady", "slow", "fast", "jumpy", "skew", "stall", "backjump", "wallonly")


class SimClock:
    total_ns = 0  # simulated (monotonic) nanoseconds elapsed over all clocks of this process: evidence only

    def __init__(self, stream: Optional[Stream] = None, profile: str = "steady",
                 wall0_s: float = 1_700_000_000.0):
        self.stream = stream
        self.profile = profile
        self.wall_ns = int(wall0_s * 1e9)
        self.mono_ns = 1_000_000_000
        self.reads = 0
        self.slept_ns = 0
        self.fired: Dict[str, int] = {}
        self.scripted: List[int] = []  # explicit per-read advances (ns), consumed first
        self.on_read: Optional[Callable[[str], None]] = None

    # -- advancing -------------------------------------------------------
    def _fire(self, kind: str) -> None:
        self.fired[kind] = self.fired.get(kind, 0) + 1

    def advance(self, ns: int, *, wall: bool = True, mono: bool = True) -> None:
        if wall:
            self.wall_ns += int(ns)
        if mono and ns > 0:
            self.mono_ns += int(ns)
            SimClock.total_ns += int(ns)

    def _tick(self, which: str) -> None:
        self.reads += 1
        if self.on_read is not None:
            self.on_read(which)
        if self.scripted:
            self.advance(self.scripted.pop(0))
            self._fire("scripted")
            return
        p, s = self.profile, self.stream
        if p == "steady" or s is None:
            self.advance(1_000)
            return
        if p == "slow":
            self.advance(s.randint(0, 50) * 1_000_000)
            self._fire("slow")
        elif p == "fast":
            self.advance(s.randint(0, 3))
            self._fire("fast")
        elif p == "stall":
            self._fire("stall")  # no progress at all
        elif p == "jumpy":
            if s.chance(0.2):
                self.advance(s.randint(1, 3600) * 1_000_000_000, mono=s.chance(0.5))
                self._fire("jump_fwd")
            else:
                self.advance(s.randint(0, 2_000_000))
        elif p == "backjump":
            if s.chance(0.2):
                self.advance(-s.randint(1, 3600) * 1_000_000_000, mono=False)
                self._fire("jump_back")
            else:
                self.advance(s.randint(0, 2_000_000))
        elif p == "wallonly":
            # wall clock wanders (forwards and backwards); elapsed (monotonic) time is steady
            self.mono_ns += 1_000
            self.wall_ns += s.randint(-3_600_000_000_000, 3_600_000_000_000)
            self._fire("wall_jump")
        elif p == "skew":
            d = s.randint(0, 5_000_000)
            self.wall_ns += d * 3
            self.mono_ns += d
            self._fire("skew")
        else:
            self.advance(1_000)

    # -- reading ---------------------------------------------------------
    def time(self) -> float:
        self._tick("time")
        return self.wall_ns / 1e9

    def time_ns(self) -> int:
        self._tick("time_ns")
        return self.wall_ns

    def perf_counter(self) -> float:
        self._tick("perf_counter")
        return self.mono_ns / 1e9

    def monotonic(self) -> float:
        self._tick("monotonic")
        return self.mono_ns / 1e9

    def sleep(self, s: float) -> None:
        ns = int(max(0.0, float(s)) * 1e9)
        self.slept_ns += ns
        self.advance(ns)
        self._fire("sleep")

    def sim_seconds(self) -> float:
        return (self.mono_ns - 1_000_000_000) / 1e9


class SimTime:
    """Stand-in for the `time` module bound into engine modules."""

    def __init__(self, clock: SimClock):
        self._c = clock
        self.time = clock.time
        self.time_ns = clock.time_ns
        self.perf_counter = clock.perf_counter
        self.monotonic = clock.monotonic
        self.sleep = clock.sleep
        self.gmtime = _real_time.gmtime
        self.strftime = _real_time.strftime
        self.struct_time = _real_time.struct_time

    def perf_counter_ns(self) -> int:
        self._c._tick("perf_counter_ns")
        return self._c.mono_ns

    def monotonic_ns(self) -> int:
        self._c._tick("monotonic_ns")
        return self._c.mono_ns

    def __getattr__(self, name: str) -> Any:  # anything else: the real thing
        return getattr(_real_time, name)


def make_datetime_class(clock: SimClock):
    class SimDateTime(_real_dt.datetime):
        @classmethod
        def now(cls, tz=None):
            t = clock.time()
            if tz is None:
                return cls.utcfromtimestamp(t)  # naive; engine always passes tz
            return cls.fromtimestamp(t, tz)

        @classmethod
        def utcnow(cls):
            return cls.utcfromtimestamp(clock.time())

    SimDateTime.__name__ = "datetime"
    return SimDateTime


class DatetimeModuleShim:
    """Looks like the `datetime` module; datetime.now() reads the sim clock."""

    def __init__(self, clock: SimClock):
        self.datetime = make_datetime_class(clock)
        self.timezone = _real_dt.timezone
        self.timedelta = _real_dt.timedelta
        self.date = _real_dt.date
        self.time = _real_dt.time
        self.tzinfo = _real_dt.tzinfo
        self.UTC = getattr(_real_dt, "UTC", _real_dt.timezone.utc)

    def __getattr__(self, name: str) -> Any:
        return getattr(_real_dt, name)
