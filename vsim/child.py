"""Worker interpreters under another PYTHONHASHSEED (DESIGN 2.5).

Child(hashseed).call("checks.c01", "run_env", args) executes mod.fn(**args) in a
separate interpreter and returns its JSON result.  Line-delimited JSON protocol.
A child is restarted after `max_jobs` jobs, so both fresh and warm interpreters
are exercised.
"""
from __future__ import annotations

import atexit
import json
import os
import subprocess
import sys
from typing import Any, Dict, Optional

VERIF = os.path.dirname(os.path.dirname(os.path.abspath(__file__)))


class ChildError(Exception):
    pass


class Child:
    def __init__(self, hashseed: str, max_jobs: int = 40):
        self.hashseed = str(hashseed)
        self.max_jobs = max_jobs
        self.jobs = 0
        self.starts = 0
        self.p: Optional[subprocess.Popen] = None
        atexit.register(self.close)

    def _start(self) -> None:
        env = dict(os.environ)
        env["PYTHONHASHSEED"] = self.hashseed
        env["PYTHONPATH"] = VERIF + (":" + env["PYTHONPATH"] if env.get("PYTHONPATH") else "")
        env["PYTHONDONTWRITEBYTECODE"] = "1"
        self.p = subprocess.Popen([sys.executable, "-m", "vsim.child"], stdin=subprocess.PIPE, stdout=subprocess.PIPE,
                                  cwd=VERIF, env=env, text=True, bufsize=1)
        self.jobs = 0
        self.starts += 1

    def call(self, mod: str, fn: str, args: Dict[str, Any]) -> Any:
        try:
            return self._call(mod, fn, args)
        except ChildError as e:
            if "child interpreter died" not in str(e) and "Broken pipe" not in str(e):
                raise
        except (BrokenPipeError, OSError):
            pass
        # the interpreter went away (killed, out of memory): one retry in a fresh one
        self.close()
        return self._call(mod, fn, args)

    def _call(self, mod: str, fn: str, args: Dict[str, Any]) -> Any:
        if self.p is None or self.p.poll() is not None or self.jobs >= self.max_jobs:
            self.close()
            self._start()
        assert self.p is not None and self.p.stdin is not None and self.p.stdout is not None
        fresh = self.jobs == 0
        self.jobs += 1
        self.p.stdin.write(json.dumps({"mod": mod, "fn": fn, "args": args}) + "\n")
        self.p.stdin.flush()
        line = self.p.stdout.readline()
        if not line:
            raise ChildError("child interpreter died (exit %s)" % self.p.poll())
        resp = json.loads(line)
        if "err" in resp:
            raise ChildError(resp["err"])
        out = resp["ok"]
        if isinstance(out, dict):
            out["_fresh_interpreter"] = fresh
        return out

    def close(self) -> None:
        p, self.p = self.p, None
        if p is not None:
            try:
                p.stdin.close()  # type: ignore[union-attr]
            except Exception:
                pass
            try:
                p.wait(timeout=5)
            except Exception:
                p.kill()


def _main() -> int:
    import importlib
    import traceback
    from . import use_repo, repo_stamp
    use_repo()
    stamp_then, stamp_now = os.environ.get("VSIM_REPO_STAMP"), repo_stamp()
    out = sys.stdout
    sys.stdout = sys.stderr  # anything the engine prints must not corrupt the protocol
    for line in sys.stdin:
        line = line.strip()
        if not line:
            continue
        try:
            if stamp_then and stamp_then != stamp_now:
                # comparing this interpreter with one that imported an older tree would compare two programs
                raise RuntimeError("REPO-CHANGED: the tree under test was modified while the check was running "
                                   "(stamp %s at start, %s now); the run is void" % (stamp_then, stamp_now))
            req = json.loads(line)
            mod = importlib.import_module(req["mod"])
            res = getattr(mod, req["fn"])(**req["args"])
            resp = {"ok": res}
        except BaseException as e:  # noqa: BLE001
            resp = {"err": "".join(traceback.format_exception(type(e), e, e.__traceback__))[-3000:],
                    "exc_type": type(e).__name__}
        out.write(json.dumps(resp, default=repr) + "\n")
        out.flush()
    return 0


if __name__ == "__main__":
    sys.exit(_main())
