"""Counter-based PRNG with named sub-streams (DESIGN 2.1).

Rng(seed).stream("ops") and Rng(seed).stream("faults") are independent: drawing
from one never shifts another.  Nothing here reads a clock or os.urandom.
"""
from __future__ import annotations

import hashlib
from typing import Any, List, Sequence

MASK = (1 << 64) - 1


def _mix(x: int) -> int:
    x = (x + 0x9E3779B97F4A7C15) & MASK
    z = x
    z = ((z ^ (z >> 30)) * 0xBF58476D1CE4E5B9) & MASK
    z = ((z ^ (z >> 27)) * 0x94D049BB133111EB) & MASK
    return z ^ (z >> 31)


def H(*parts: Any) -> int:
    """Stable 63-bit hash of the parts (independent of PYTHONHASHSEED)."""
    h = hashlib.blake2b(digest_size=8)
    for p in parts:
        h.update(repr(p).encode("utf-8"))
        h.update(b"\x1f")
    return int.from_bytes(h.digest(), "big") & ((1 << 63) - 1)


class Stream:
    __slots__ = ("key", "ctr")

    def __init__(self, seed: int, name: str):
        self.key = H(seed, name)
        self.ctr = 0

    def u64(self) -> int:
        self.ctr += 1
        return _mix(_mix(self.key) ^ _mix(self.ctr * 0xD1342543DE82EF95 & MASK))

    def random(self) -> float:
        return (self.u64() >> 11) / float(1 << 53)

    def uniform(self, a: float, b: float) -> float:
        return a + (b - a) * self.random()

    def randint(self, a: int, b: int) -> int:
        """Inclusive on both ends."""
        if b < a:
            a, b = b, a
        return a + self.u64() % (b - a + 1)

    def below(self, n: int) -> int:
        return self.u64() % n if n > 0 else 0

    def chance(self, p: float) -> bool:
        return self.random() < p

    def choice(self, seq: Sequence[Any]) -> Any:
        return seq[self.below(len(seq))]

    def weighted(self, pairs: Sequence[tuple]) -> Any:
        tot = sum(w for _, w in pairs)
        x = self.random() * tot
        for v, w in pairs:
            x -= w
            if x < 0:
                return v
        return pairs[-1][0]

    def shuffle(self, xs: List[Any]) -> List[Any]:
        for i in range(len(xs) - 1, 0, -1):
            j = self.below(i + 1)
            xs[i], xs[j] = xs[j], xs[i]
        return xs

    def sample(self, seq: Sequence[Any], k: int) -> List[Any]:
        xs = list(seq)
        self.shuffle(xs)
        return xs[: max(0, min(k, len(xs)))]

    def subset(self, seq: Sequence[Any], p: float = 0.5) -> List[Any]:
        return [x for x in seq if self.chance(p)]

    def bytes(self, n: int) -> bytes:
        out = bytearray()
        while len(out) < n:
            out += self.u64().to_bytes(8, "little")
        return bytes(out[:n])


class Rng:
    def __init__(self, seed: int):
        self.seed = int(seed)
        self._streams = {}

    def stream(self, name: str) -> Stream:
        s = self._streams.get(name)
        if s is None:
            s = self._streams[name] = Stream(self.seed, name)
        return s

    __call__ = stream
